package main

import (
	"go/ast"
	"go/constant"
	"go/parser"
	"go/token"
	"path/filepath"
)

// pkg is one parsed Go package together with the translation state.
type pkg struct {
	cfg    *config
	dir    string // package directory (globals.go scans all of its files)
	fset   *token.FileSet
	files  []*ast.File
	funcs  map[string]*ast.FuncDecl // "name" or "Element.name"
	nlimbs int                      // type Element [nlimbs]uint64
	// package-level `var g = Element{lit, ...}`: limb literals
	globals map[string][]string
	done    map[string]*summary
	inprog  map[string]bool
	order   []string
	coqUsed map[string]string // Coq definition name -> function key
	// memory-level output (mem.go)
	mem      map[string]*msummary
	memOrder []string
}

func (p *pkg) pos(n ast.Node) string { return p.fset.Position(n.Pos()).String() }

func (p *pkg) failAt(n ast.Node, format string, args ...interface{}) {
	fatalf(p.pos(n)+": "+format, args...)
}

// litU64 returns the decimal text of an integer literal that fits a uint64.
func (p *pkg) litU64(e ast.Expr) (string, bool) {
	bl, ok := e.(*ast.BasicLit)
	if !ok || bl.Kind != token.INT {
		return "", false
	}
	v := constant.MakeFromLiteral(bl.Value, token.INT, 0)
	if v.Kind() != constant.Int {
		p.failAt(e, "bad integer literal %s", bl.Value)
	}
	if _, exact := constant.Uint64Val(v); !exact {
		p.failAt(e, "integer literal %s does not fit a uint64", bl.Value)
	}
	return v.ExactString(), true
}

func funcKey(fd *ast.FuncDecl) string {
	if fd.Recv == nil || len(fd.Recv.List) == 0 {
		return fd.Name.Name
	}
	t := fd.Recv.List[0].Type
	if st, ok := t.(*ast.StarExpr); ok {
		t = st.X
	}
	if id, ok := t.(*ast.Ident); ok {
		return id.Name + "." + fd.Name.Name
	}
	return "?." + fd.Name.Name
}

func loadPkg(dir string, cfg *config) *pkg {
	p := &pkg{
		cfg: cfg, dir: dir, fset: token.NewFileSet(),
		funcs: map[string]*ast.FuncDecl{}, globals: map[string][]string{},
		done: map[string]*summary{}, inprog: map[string]bool{},
		coqUsed: map[string]string{}, mem: map[string]*msummary{},
	}
	for _, name := range cfg.files {
		f, err := parser.ParseFile(p.fset, filepath.Join(dir, name), nil, parser.SkipObjectResolution)
		if err != nil {
			fatalf("%v", err)
		}
		p.files = append(p.files, f)
	}
	for _, f := range p.files {
		for _, d := range f.Decls {
			switch d := d.(type) {
			case *ast.FuncDecl:
				k := funcKey(d)
				if k == "init" || k == "_" {
					continue // may be declared several times, never translated
				}
				if _, dup := p.funcs[k]; dup {
					p.failAt(d, "duplicate function %s", k)
				}
				p.funcs[k] = d
			case *ast.GenDecl:
				p.loadGenDecl(d)
			}
		}
	}
	if p.nlimbs == 0 {
		fatalf("%s: type Element [N]uint64 not found", dir)
	}
	p.checkGlobalsConstant()
	return p
}

func (p *pkg) loadGenDecl(d *ast.GenDecl) {
	for _, s := range d.Specs {
		switch s := s.(type) {
		case *ast.TypeSpec:
			if s.Name.Name != "Element" {
				continue
			}
			at, ok := s.Type.(*ast.ArrayType)
			if !ok || !isIdent(at.Elt, "uint64") {
				p.failAt(s, "type Element is not [N]uint64")
			}
			n, ok := p.litU64(at.Len)
			if !ok {
				p.failAt(s, "type Element: length is not a literal")
			}
			p.nlimbs = atoi(n)
			if p.nlimbs < 1 || p.nlimbs > 16 {
				p.failAt(s, "type Element: unsupported length %s", n)
			}
		case *ast.ValueSpec:
			if d.Tok != token.VAR || len(s.Names) != 1 || len(s.Values) != 1 {
				continue
			}
			cl, ok := s.Values[0].(*ast.CompositeLit)
			if !ok || !isIdent(cl.Type, "Element") {
				continue
			}
			var limbs []string
			for _, e := range cl.Elts {
				v, ok := p.litU64(e)
				if !ok {
					p.failAt(e, "global %s: element is not an integer literal", s.Names[0].Name)
				}
				limbs = append(limbs, v)
			}
			p.globals[s.Names[0].Name] = limbs
		}
	}
}

// checkGlobalsConstant: no statement of the loaded files assigns to (a limb
// of) a package-level Element variable that the translator treats as a
// constant.  (&g is only accepted as an "in" argument, see call.go.)
func (p *pkg) checkGlobalsConstant() {
	root := func(e ast.Expr) string {
		for {
			switch x := e.(type) {
			case *ast.IndexExpr:
				e = x.X
			case *ast.ParenExpr:
				e = x.X
			case *ast.StarExpr:
				e = x.X
			case *ast.Ident:
				return x.Name
			default:
				return ""
			}
		}
	}
	for _, f := range p.files {
		ast.Inspect(f, func(n ast.Node) bool {
			switch s := n.(type) {
			case *ast.AssignStmt:
				if s.Tok == token.DEFINE {
					return true
				}
				for _, l := range s.Lhs {
					if _, isG := p.globals[root(l)]; isG && !locallyDeclared(f, s, root(l)) {
						p.failAt(s, "assignment to package-level Element %s (assumed constant)", root(l))
					}
				}
			case *ast.IncDecStmt:
				if _, isG := p.globals[root(s.X)]; isG {
					p.failAt(s, "modification of package-level Element %s", root(s.X))
				}
			}
			return true
		})
	}
}

// locallyDeclared: conservative test whether `name` is a local variable or
// parameter of the function enclosing statement s (then the assignment does
// not touch the global of the same name).
func locallyDeclared(f *ast.File, s ast.Stmt, name string) bool {
	for _, d := range f.Decls {
		fd, ok := d.(*ast.FuncDecl)
		if !ok || fd.Body == nil || s.Pos() < fd.Pos() || s.End() > fd.End() {
			continue
		}
		found := false
		ast.Inspect(fd, func(n ast.Node) bool {
			switch x := n.(type) {
			case *ast.Field:
				for _, id := range x.Names {
					found = found || id.Name == name
				}
			case *ast.AssignStmt:
				if x.Tok == token.DEFINE {
					for _, l := range x.Lhs {
						found = found || isIdent(l, name)
					}
				}
			case *ast.ValueSpec:
				for _, id := range x.Names {
					found = found || id.Name == name
				}
			}
			return true
		})
		return found
	}
	return false
}

func isIdent(e ast.Expr, name string) bool {
	id, ok := e.(*ast.Ident)
	return ok && id.Name == name
}

func atoi(s string) int {
	n := 0
	for _, c := range s {
		if c < '0' || c > '9' || n > 1<<20 {
			return -1
		}
		n = n*10 + int(c-'0')
	}
	return n
}

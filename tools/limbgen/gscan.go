package main

import (
	"go/ast"
	"go/token"
)

// writeGuard: while a loop body / the branches of a joined `if` are being
// translated, every write to a variable declared outside must have been
// predicted by assignedOuter (otherwise the value would be lost).
type writeGuard struct {
	outer, allowed map[*gv]bool
}

func (g *gtrans) pushGuard(e *genv, allowed []*gv) {
	w := &writeGuard{outer: map[*gv]bool{}, allowed: map[*gv]bool{}}
	for _, v := range e.all() {
		w.outer[v] = true
	}
	for _, v := range allowed {
		w.allowed[v] = true
	}
	g.guards = append(g.guards, w)
}

func (g *gtrans) popGuard() { g.guards = g.guards[:len(g.guards)-1] }

func (g *gtrans) checkGuards(v *gv) {
	for _, w := range g.guards {
		if w.outer[v] && !w.allowed[v] {
			panic(transErr{g.key + ": internal: write to " + v.name + " missed by the pre-scan of a loop / if"})
		}
	}
}

// rootIdent: the variable an expression designates or lives in:
// x, &x, *x, x[i], x[a:b], and the receiver at the bottom of a call chain.
func rootIdent(x ast.Expr) *ast.Ident {
	for {
		switch y := x.(type) {
		case *ast.ParenExpr:
			x = y.X
		case *ast.UnaryExpr:
			if y.Op != token.AND {
				return nil
			}
			x = y.X
		case *ast.StarExpr:
			x = y.X
		case *ast.IndexExpr:
			x = y.X
		case *ast.SliceExpr:
			x = y.X
		case *ast.CallExpr:
			sel, ok := y.Fun.(*ast.SelectorExpr)
			if !ok {
				return nil
			}
			x = sel.X
		case *ast.Ident:
			return y
		default:
			return nil
		}
	}
}

// assignedOuter lists, in declaration order, the variables of e (declared
// OUTSIDE the scanned statements) that the statements may assign.
func (g *gtrans) assignedOuter(list []ast.Stmt, e *genv) []*gv {
	set := map[*gv]bool{}
	locals := map[string]gkind{} // kinds of the variables declared inside the scanned statements, where known
	add := func(x ast.Expr) {
		if id := rootIdent(x); id != nil {
			if v := e.lookup(id.Name); v != nil {
				set[v] = true
			}
		}
	}
	callOuts := func(call *ast.CallExpr) {
		switch f := call.Fun.(type) {
		case *ast.Ident:
			if e.lookup(f.Name) != nil {
				return
			}
			switch f.Name {
			case "uint64", "int", "uint", "len", "make", "new", "panic", "append", "copy":
				return
			}
			if _, ok := g.p.funcs[f.Name]; !ok {
				return
			}
			s := g.gl.summaryOf(f.Name, g, call)
			for i, pa := range s.params {
				if pa.out && i < len(call.Args) {
					add(call.Args[i])
				}
			}
		case *ast.SelectorExpr:
			if inner, ok := f.X.(*ast.SelectorExpr); ok && isIdent(inner.X, "binary") {
				if len(call.Args) > 0 {
					add(call.Args[0])
				}
				return
			}
			if (isIdent(f.X, "bits") || isIdent(f.X, "bigIntPool")) && e.lookup(f.X.(*ast.Ident).Name) == nil {
				return
			}
			recvKind := kNone
			if id := rootIdent(f.X); id != nil {
				if v := e.lookup(id.Name); v != nil {
					recvKind = v.kind
				} else if k, ok := locals[id.Name]; ok {
					recvKind = k
				}
			} else if c, ok := unparen(f.X).(*ast.CallExpr); ok && isIdent(c.Fun, "new") {
				recvKind = kBig
			}
			if recvKind == kBig || (recvKind == kNone && bigMutators[f.Sel.Name]) {
				if bigMutators[f.Sel.Name] {
					add(f.X)
				}
				if recvKind == kBig {
					return
				}
			}
			if _, ok := g.p.funcs["Element."+f.Sel.Name]; !ok || g.gl.inprog["Element."+f.Sel.Name] {
				return // (a genuinely recursive call is rejected when the call is translated)
			}
			s := g.gl.summaryOf("Element."+f.Sel.Name, g, call)
			for i, pa := range s.params {
				if !pa.out {
					continue
				}
				if i == 0 {
					add(f.X)
				} else if i-1 < len(call.Args) {
					add(call.Args[i-1])
				}
			}
		}
	}
	for _, s := range list {
		ast.Inspect(s, func(n ast.Node) bool {
			switch x := n.(type) {
			case *ast.ValueSpec:
				if x.Type != nil {
					if k, ptr, _ := g.kindOfType(x.Type); k != kNone && !ptr {
						for _, id := range x.Names {
							locals[id.Name] = k
						}
					}
				}
			case *ast.AssignStmt:
				if x.Tok == token.DEFINE && len(x.Lhs) == 1 && len(x.Rhs) == 1 && g.isPoolGet(x.Rhs[0]) {
					if id, ok := x.Lhs[0].(*ast.Ident); ok {
						locals[id.Name] = kBig
					}
				}
				for _, l := range x.Lhs {
					add(l)
				}
			case *ast.IncDecStmt:
				add(x.X)
			case *ast.CallExpr:
				callOuts(x)
			case *ast.FuncLit:
				g.fail(x, "function literal (unsupported)")
			}
			return true
		})
	}
	return sortedGv(set)
}

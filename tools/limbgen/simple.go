package main

import (
	"go/ast"
	"go/token"
)

var opAssign = map[token.Token]token.Token{
	token.SHR_ASSIGN: token.SHR, token.SHL_ASSIGN: token.SHL, token.OR_ASSIGN: token.OR,
	token.AND_ASSIGN: token.AND, token.MUL_ASSIGN: token.MUL,
	token.ADD_ASSIGN: token.ADD, token.SUB_ASSIGN: token.SUB,
}

func (ft *ftrans) simple(s ast.Stmt, e *env) {
	p := ft.p
	switch s := s.(type) {
	case *ast.EmptyStmt:
	case *ast.DeclStmt:
		gd, ok := s.Decl.(*ast.GenDecl)
		if !ok || gd.Tok != token.VAR {
			p.failAt(s, "%s: unsupported declaration", ft.sum.key)
		}
		for _, sp := range gd.Specs {
			ft.varSpec(sp.(*ast.ValueSpec), e)
		}
	case *ast.ExprStmt:
		call, ok := s.X.(*ast.CallExpr)
		if !ok {
			p.failAt(s, "%s: unsupported expression statement", ft.sum.key)
		}
		ft.callStmt(e, ft.resolveCall(e, call), nil)
	case *ast.AssignStmt:
		ft.assign(s, e)
	default:
		p.failAt(s, "%s: unsupported statement (%T)", ft.sum.key, s)
	}
}

// varSpec: var a, b uint64 / var t [4]uint64 / var y Element / var u = Element{..}
func (ft *ftrans) varSpec(sp *ast.ValueSpec, e *env) {
	p := ft.p
	if len(sp.Values) != 0 {
		if len(sp.Names) != 1 || len(sp.Values) != 1 || (sp.Type != nil && !isIdent(sp.Type, "Element")) {
			p.failAt(sp, "%s: unsupported var declaration with a value", ft.sum.key)
		}
		cl, ok := sp.Values[0].(*ast.CompositeLit)
		if !ok {
			p.failAt(sp, "%s: unsupported var initializer", ft.sum.key)
		}
		term := ft.composite(e, cl)
		v := &gvar{name: sp.Names[0].Name, typ: "elem", n: p.nlimbs}
		ft.declare(e, sp, v)
		ft.line(e, "let "+v.name+" := "+term+" in")
		ft.afterWriteWhole(e, sp, v)
		return
	}
	for _, id := range sp.Names {
		v := &gvar{name: id.Name}
		switch t := sp.Type.(type) {
		case *ast.Ident:
			if t.Name == "Element" {
				v.typ, v.n = "elem", p.nlimbs
			} else if t.Name == "uint64" || t.Name == "bool" {
				v.typ = t.Name
			}
		case *ast.ArrayType:
			if n, ok := p.litU64(t.Len); ok && isIdent(t.Elt, "uint64") && atoi(n) >= 1 && atoi(n) <= 16 {
				v.typ, v.n = "arr", atoi(n)
			}
		}
		switch v.typ {
		case "":
			p.failAt(sp, "%s: var %s has an unsupported type", ft.sum.key, id.Name)
		case "elem":
			ft.declare(e, sp, v)
			var zs []string
			for j := 0; j < v.n; j++ {
				zs = append(zs, "0")
			}
			ft.line(e, "let "+v.name+" := "+tupleOf(zs)+" in")
			ft.afterWriteWhole(e, sp, v)
		case "arr":
			ft.declare(e, sp, v)
			for j := 0; j < v.n; j++ {
				ft.line(e, "let "+v.limb(j)+" := 0 in")
				e.st[v].bound[j] = true
			}
		default:
			ft.declare(e, sp, v)
			ft.line(e, "let "+v.name+" := "+zeroOf(v.typ)+" in")
			e.st[v].carry = v.typ == "uint64" // the zero value is a carry
		}
	}
}

// composite: Element{a, b, ...}, missing limbs are zero.
func (ft *ftrans) composite(e *env, cl *ast.CompositeLit) string {
	p := ft.p
	if !isIdent(cl.Type, "Element") || len(cl.Elts) > p.nlimbs {
		p.failAt(cl, "%s: unsupported composite literal", ft.sum.key)
	}
	var parts []string
	for _, x := range cl.Elts {
		if _, kv := x.(*ast.KeyValueExpr); kv {
			p.failAt(x, "%s: keyed composite literal (unsupported)", ft.sum.key)
		}
		parts = append(parts, ft.exprU(e, x))
	}
	for len(parts) < p.nlimbs {
		parts = append(parts, "0")
	}
	return tupleOf(parts)
}

// wholeRhs: a right-hand side of type Element: Element{..} or *p.
func (ft *ftrans) wholeRhs(e *env, x ast.Expr) (string, bool) {
	x = unparen(x)
	switch x := x.(type) {
	case *ast.CompositeLit:
		return ft.composite(e, x), true
	case *ast.StarExpr:
		id, ok := unparen(x.X).(*ast.Ident)
		if !ok {
			ft.p.failAt(x, "%s: unsupported dereference", ft.sum.key)
		}
		v := e.lookup(id.Name)
		if v == nil || !v.ptrParam {
			ft.p.failAt(x, "%s: *%s: not a pointer parameter", ft.sum.key, id.Name)
		}
		return ft.readWhole(e, x, v), true
	}
	return "", false
}

func (ft *ftrans) assign(s *ast.AssignStmt, e *env) {
	p := ft.p
	if op, ok := opAssign[s.Tok]; ok { // x op= y
		if len(s.Lhs) != 1 || len(s.Rhs) != 1 {
			p.failAt(s, "%s: unsupported assignment", ft.sum.key)
		}
		rhs := ft.exprU(e, &ast.BinaryExpr{X: s.Lhs[0], OpPos: s.TokPos, Op: op, Y: s.Rhs[0]})
		ft.assignScalar(s, s.Lhs[0], rhs, "uint64", false, e)
		return
	}
	if s.Tok != token.ASSIGN && s.Tok != token.DEFINE {
		p.failAt(s, "%s: unsupported assignment operator %s", ft.sum.key, s.Tok)
	}
	def := s.Tok == token.DEFINE
	if len(s.Rhs) != 1 {
		p.failAt(s, "%s: parallel assignment (unsupported)", ft.sum.key)
	}
	if len(s.Lhs) > 1 {
		ft.assignCall(s, def, e)
		return
	}
	lhs, rhs := unparen(s.Lhs[0]), s.Rhs[0]
	// whole-Element assignments: *z = .., v := *x, z := Element{..}, r = Element{}
	if term, ok := ft.wholeRhs(e, rhs); ok {
		var v *gvar
		if st, isStar := lhs.(*ast.StarExpr); isStar && !def {
			if id, ok := unparen(st.X).(*ast.Ident); ok {
				v = e.lookup(id.Name)
			}
			if v == nil || !v.ptrParam {
				p.failAt(s, "%s: unsupported destination of a whole-Element assignment", ft.sum.key)
			}
		} else if id, isId := lhs.(*ast.Ident); isId && def {
			v = &gvar{name: id.Name, typ: "elem", n: p.nlimbs}
			ft.declare(e, s, v)
		} else if isId {
			v = e.lookup(id.Name)
			if v == nil || v.typ != "elem" || v.ptrParam {
				p.failAt(s, "%s: unsupported destination of a whole-Element assignment", ft.sum.key)
			}
		} else {
			p.failAt(s, "%s: unsupported destination of a whole-Element assignment", ft.sum.key)
		}
		ft.line(e, "let "+v.name+" := "+term+" in")
		ft.afterWriteWhole(e, s, v)
		return
	}
	if _, isConst, _ := constVal(rhs); isConst && def {
		// x := 5 declares an int in Go, not a uint64: comparisons, >> and conversions differ
		p.failAt(s, "%s: `:=` from an untyped constant declares an int (unsupported; write `var x uint64` / uint64(..))", ft.sum.key)
	}
	if ft.isBoolExpr(e, rhs) {
		ft.assignScalar(s, lhs, ft.exprB(e, rhs), "bool", def, e)
	} else {
		ft.assignScalar(s, lhs, ft.exprU(e, rhs), "uint64", def, e)
	}
}

// assignScalar: lhs is x[i] or a scalar variable; rhs is already translated.
func (ft *ftrans) assignScalar(s ast.Stmt, lhs ast.Expr, rhs, typ string, def bool, e *env) {
	p := ft.p
	lhs = unparen(lhs)
	if v, j, ok := ft.limbRef(e, lhs); ok {
		if def || typ != "uint64" {
			p.failAt(s, "%s: bad assignment to a limb", ft.sum.key)
		}
		name := ft.writeLimb(e, s, v, j)
		ft.line(e, "let "+name+" := "+rhs+" in")
		ft.afterWriteLimb(e, v, j)
		return
	}
	id, ok := lhs.(*ast.Ident)
	if !ok || id.Name == "_" {
		p.failAt(s, "%s: unsupported assignment destination", ft.sum.key)
	}
	var v *gvar
	if def {
		v = &gvar{name: id.Name, typ: typ}
		ft.declare(e, s, v)
	} else if v = e.lookup(id.Name); v == nil || v.typ != typ {
		p.failAt(s, "%s: assignment to %s: unknown variable or type mismatch", ft.sum.key, id.Name)
	}
	ft.line(e, "let "+v.name+" := "+rhs+" in")
	ft.noteScalarWrite(e, v)
}

package main

// Memory-level output (Gen/FfMem.v, Gen/FfgMem.v): the SAME straight-line
// limb routines as Gen/Ff{,g}Routines.v, but every *Element is an object id
// (nat) and every x[j] / z[j] = e is a load / store on a store
// mem := nat -> el, in program order.  See README.md, "Memory-level output".
//
// This is an independent second translator over the same syntax trees; it
// only borrows the signatures (which pointer parameters are written, scalar
// result types, which parameter a *Element result is) from the value-level
// summaries.  Proofs/Ff{,g}MemEq.v prove the two readings equal for every
// aliasing pattern of the pointer parameters.

import (
	"fmt"
	"go/ast"
	"sort"
	"strings"
)

const memVar = "M'"    // the current store (Go identifiers cannot contain ')
const frameVar = "fr'" // first free object id of the caller's frame

// msummary is what callers need to know about a memory-level definition.
type msummary struct {
	name       string // Coq name: <value-level name>_mem
	writes     bool   // some pointer parameter is written: the result starts with the store
	needsFrame bool   // has (transitively) local Elements: takes fr'
	globals    map[string]bool
	text       string
}

// mvar: one Go variable as seen by the memory-level translator.
type mvar struct {
	name string
	kind string // "ptr" (*Element parameter), "loc" (local Element), "arr", "uint64", "uint8", "bool"
	n    int    // arr: number of limbs
}

type mtrans struct {
	p      *pkg
	fd     *ast.FuncDecl
	sum    *summary
	ms     *msummary
	scopes []map[string]*mvar
	out    *strings.Builder
	ind    string
	nloc   int // local Elements declared so far (frame slots)
	ntmp   int
	named  []*mvar
}

func (mt *mtrans) fail(at ast.Node, format string, args ...interface{}) {
	mt.p.failAt(at, "memory level: "+mt.sum.key+": "+format, args...)
}

func (mt *mtrans) line(s string) { mt.out.WriteString(mt.ind + strings.TrimRight(s, " ") + "\n") }

func (mt *mtrans) push() { mt.scopes = append(mt.scopes, map[string]*mvar{}) }
func (mt *mtrans) pop()  { mt.scopes = mt.scopes[:len(mt.scopes)-1] }

func (mt *mtrans) lookup(name string) *mvar {
	for i := len(mt.scopes) - 1; i >= 0; i-- {
		if v, ok := mt.scopes[i][name]; ok {
			return v
		}
	}
	return nil
}

func (mt *mtrans) declare(at ast.Node, v *mvar) {
	if mt.lookup(v.name) != nil {
		mt.fail(at, "declaration of %s shadows a live variable", v.name)
	}
	mt.scopes[len(mt.scopes)-1][v.name] = v
}

func hasElemParam(s *summary) bool {
	for _, pa := range s.params {
		if pa.typ == "elem" {
			return true
		}
	}
	return false
}

func writesAny(s *summary) bool {
	for _, pa := range s.params {
		if pa.typ == "elem" && s.isOut[pa.name] {
			return true
		}
	}
	return false
}

// memTranslate makes sure the memory-level definition of `key` exists.
// nil: the function has no *Element parameter (madd0..3): callers use the
// value-level definition.
func (p *pkg) memTranslate(key string, at ast.Node) *msummary {
	if ms, ok := p.mem[key]; ok {
		return ms
	}
	sum, ok := p.done[key]
	if !ok {
		fatalf("memory level: %s has no value-level translation", key)
	}
	if !hasElemParam(sum) {
		return nil
	}
	if sum.fragmented {
		if at != nil {
			p.failAt(at, "memory level: call of %s, which contains a loop", key)
		}
		return nil
	}
	mt := &mtrans{p: p, fd: p.funcs[key], sum: sum, out: &strings.Builder{}, ind: "  "}
	mt.ms = &msummary{name: sum.coqName + "_mem", writes: writesAny(sum), globals: map[string]bool{}}
	mt.push()
	for _, pa := range sum.params {
		k := pa.typ
		if k == "elem" {
			k = "ptr"
		}
		mt.declare(mt.fd, &mvar{name: pa.name, kind: k})
	}
	if mt.fd.Type.Results != nil {
		for _, f := range mt.fd.Type.Results.List {
			for _, id := range f.Names {
				v := &mvar{name: id.Name, kind: p.scalarType(f.Type)}
				mt.declare(f, v)
				mt.named = append(mt.named, v)
			}
		}
	}
	mt.push()
	for _, v := range mt.named {
		mt.line("let " + v.name + " := " + zeroOf(v.kind) + " in")
	}
	mt.stmts(mt.fd.Body.List, true, func() {
		if (len(sum.results) != 0 && len(mt.named) == 0) || sum.retAlias != "" {
			mt.fail(mt.fd, "control reaches the end of a function with unnamed results")
		}
		mt.result(nil)
	})
	mt.ms.text = mt.definition()
	p.mem[key] = mt.ms
	p.memOrder = append(p.memOrder, key)
	return mt.ms
}

func (mt *mtrans) resultType() string {
	var ts []string
	if mt.ms.writes {
		ts = append(ts, "mem")
	}
	for _, r := range mt.sum.results {
		ts = append(ts, coqType(r))
	}
	return strings.Join(ts, " * ")
}

// result emits the value of the function: the final store (if the function
// writes through a pointer parameter), then the scalar results.
func (mt *mtrans) result(scalars []string) {
	var parts []string
	if mt.ms.writes {
		parts = append(parts, memVar)
	}
	if scalars == nil {
		for _, v := range mt.named {
			scalars = append(scalars, v.name)
		}
	}
	parts = append(parts, scalars...)
	if len(parts) == 0 {
		mt.fail(mt.fd, "function writes nothing and returns nothing")
	}
	mt.line(tupleOf(parts))
}

func (mt *mtrans) definition() string {
	var b strings.Builder
	pos := mt.p.fset.Position(mt.fd.Pos())
	fmt.Fprintf(&b, "(* %s/%s:%d  func %s, memory level *)\n", mt.p.cfg.pkgDir, shortName(pos.Filename), pos.Line, mt.sum.key)
	var gs []string
	for g := range mt.ms.globals {
		gs = append(gs, "g_"+g)
	}
	sort.Strings(gs)
	if len(gs) != 0 {
		fmt.Fprintf(&b, "(* reads the package-level object(s) %s *)\n", strings.Join(gs, ", "))
	}
	b.WriteString("Definition " + mt.ms.name)
	for _, pa := range mt.sum.params {
		t := coqType(pa.typ)
		if pa.typ == "elem" {
			t = "nat"
		}
		b.WriteString(" (" + pa.name + " : " + t + ")")
	}
	if mt.ms.needsFrame {
		b.WriteString(" (" + frameVar + " : nat)")
	}
	b.WriteString(" (" + memVar + " : mem) : " + mt.resultType() + " :=\n")
	body := strings.ReplaceAll(mt.out.String(), "@FR@", mt.frameAt(mt.nloc))
	b.WriteString(strings.TrimRight(body, "\n") + ".\n")
	return b.String()
}

// frameAt: the object id of frame slot k (also: the callee's frame base).
func (mt *mtrans) frameAt(k int) string {
	if k == 0 {
		return frameVar
	}
	return fmt.Sprintf("(%s + %d)%%nat", frameVar, k)
}

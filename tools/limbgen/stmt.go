package main

import (
	"go/ast"
)

// cont is "what follows": f emits it; tail says that f only builds the
// function result (so duplicating it in two branches is harmless and is the
// shape used by the hand-written models).
type cont struct {
	tail bool
	f    func(e *env)
}

func (ft *ftrans) unreachable(at ast.Node) cont {
	return cont{f: func(*env) { ft.p.failAt(at, "internal: continuation of a returning branch used") }}
}

func (ft *ftrans) stmts(list []ast.Stmt, e *env, k cont) {
	for i, s := range list {
		rest := list[i+1:]
		switch s := s.(type) {
		case *ast.IfStmt:
			ft.ifStmt(s, rest, e, k)
			return
		case *ast.SwitchStmt:
			ft.switchStmt(s, rest, e, k)
			return
		case *ast.ForStmt:
			ft.loopStmt(s, rest, e, k)
			return
		case *ast.ReturnStmt:
			if len(rest) != 0 {
				ft.p.failAt(rest[0], "%s: statement after return", ft.sum.key)
			}
			ft.returnStmt(s, e)
			return
		case *ast.BlockStmt:
			e.push()
			ft.stmts(s.List, e, cont{tail: k.tail && len(rest) == 0, f: func(e2 *env) {
				e2.pop()
				ft.stmts(rest, e2, k)
			}})
			return
		default:
			ft.simple(s, e)
		}
	}
	k.f(e)
}

// branch emits the statements of one branch in its own scope.
func (ft *ftrans) branch(list []ast.Stmt, e *env, k cont) {
	e.push()
	ft.stmts(list, e, cont{tail: k.tail, f: func(e2 *env) {
		e2.pop()
		k.f(e2)
	}})
}

func elseList(s *ast.IfStmt) ([]ast.Stmt, bool) {
	switch x := s.Else.(type) {
	case nil:
		return nil, false
	case *ast.BlockStmt:
		return x.List, true
	default:
		return []ast.Stmt{x}, true
	}
}

func (ft *ftrans) ifStmt(s *ast.IfStmt, rest []ast.Stmt, e *env, k cont) {
	p := ft.p
	if s.Init != nil {
		p.failAt(s, "%s: if with an init statement (unsupported)", ft.sum.key)
	}
	A := s.Body.List
	B, hasElse := elseList(s)
	retA, retB := alwaysReturns(A), hasElse && alwaysReturns(B)
	if (containsReturn(A) && !retA) || (hasElse && containsReturn(B) && !retB) {
		p.failAt(s, "%s: a branch returns on some paths only (unsupported)", ft.sum.key)
	}
	after := cont{tail: k.tail, f: func(e2 *env) { ft.stmts(rest, e2, k) }}
	if len(rest) != 0 {
		after.tail = false
	}
	switch {
	case retA || retB:
		if retA && retB && len(rest) != 0 {
			p.failAt(rest[0], "%s: unreachable statement", ft.sum.key)
		}
		cond := ft.exprB(e, s.Cond)
		kA, kB := after, after
		if retA {
			kA = ft.unreachable(s)
		}
		if retB {
			kB = ft.unreachable(s)
		}
		ft.line(e, "if "+cond+" then (")
		ft.branch(A, e.indented(), kA)
		ft.line(e, ") else (")
		ft.branch(B, e.indented(), kB)
		ft.line(e, ")")
	case len(rest) == 0 && k.tail:
		cond := ft.exprB(e, s.Cond)
		ft.line(e, "if "+cond+" then (")
		ft.branch(A, e.indented(), k)
		ft.line(e, ") else (")
		ft.branch(B, e.indented(), k)
		ft.line(e, ")")
	default:
		ft.joinIf(s, A, B, hasElse, e)
		ft.stmts(rest, e, k)
	}
}

// joinIf: let '(vars) := if c then (A; (vars)) else (B; (vars)) in
func (ft *ftrans) joinIf(s *ast.IfStmt, A, B []ast.Stmt, hasElse bool, e *env) {
	p := ft.p
	targets := ft.assignedIn(append(append([]ast.Stmt{}, A...), B...), e)
	if len(targets) == 0 {
		p.failAt(s, "%s: if statement without any effect on outer variables", ft.sum.key)
	}
	var names []string
	for _, t := range targets {
		if t.j < 0 {
			names = append(names, t.v.name)
			continue
		}
		ft.forceLimbs(e, t.v)
		if !e.st[t.v].bound[t.j] {
			p.failAt(s, "%s: %s[%d] is assigned in a branch but has no value before the if (unsupported)", ft.sum.key, t.v.name, t.j)
		}
		names = append(names, t.v.limb(t.j))
	}
	cond := ft.exprB(e, s.Cond)
	var ends []*env
	fin := cont{f: func(eb *env) {
		for _, t := range targets {
			ft.forceLimbs(eb, t.v)
		}
		ft.line(eb, tupleOf(names))
		ends = append(ends, eb)
	}}
	ft.line(e, letPattern(names))
	e1 := e.indented()
	ft.line(e1, "if "+cond+" then (")
	ft.branch(A, e1.indented(), fin)
	ft.line(e1, ") else (")
	ft.branch(B, e1.indented(), fin)
	ft.line(e1, ") in")
	if len(ends) != 2 {
		p.failAt(s, "internal: join of %d paths", len(ends))
	}
	// merge the analysis state of the two paths into e
	for j := range e.writers {
		m := map[*gvar]bool{}
		for _, eb := range ends {
			for w := range eb.writers[j] {
				m[w] = true
			}
		}
		e.writers[j] = m
	}
	for _, t := range targets {
		if t.j < 0 {
			e.st[t.v].sinit = ends[0].st[t.v].sinit || ends[1].st[t.v].sinit
			e.st[t.v].carry = ends[0].st[t.v].carry && ends[1].st[t.v].carry
			continue
		}
		st := e.st[t.v]
		st.whole = false
		st.bound[t.j] = true
		st.init[t.j] = ends[0].st[t.v].init[t.j] || ends[1].st[t.v].init[t.j]
	}
}

func (ft *ftrans) switchStmt(s *ast.SwitchStmt, rest []ast.Stmt, e *env, k cont) {
	p := ft.p
	if s.Init != nil || s.Tag == nil || len(rest) != 0 || !k.tail {
		p.failAt(s, "%s: only a tag switch as the last statement of a function is supported", ft.sum.key)
	}
	id, ok := unparen(s.Tag).(*ast.Ident)
	var tag *gvar
	if ok {
		tag = e.lookup(id.Name)
	}
	if tag == nil || (tag.typ != "uint8" && tag.typ != "uint64") {
		p.failAt(s, "%s: switch tag must be an integer variable", ft.sum.key)
	}
	ft.noteScalarRead(e, tag)
	var def *ast.CaseClause
	n := 0
	for _, c := range s.Body.List {
		cc := c.(*ast.CaseClause)
		if containsReturn(cc.Body) && !alwaysReturns(cc.Body) {
			p.failAt(cc, "%s: a case returns on some paths only (unsupported)", ft.sum.key)
		}
		if cc.List == nil {
			def = cc
			continue
		}
		cond := ""
		for _, x := range cc.List {
			lit, ok := p.litU64(unparen(x))
			if !ok || (tag.typ == "uint8" && atoi(lit) > 255) {
				p.failAt(x, "%s: case value is not an integer literal in range", ft.sum.key)
			}
			c1 := app("Z.eqb", tag.name, lit)
			if cond == "" {
				cond = c1
			} else {
				cond = app("orb", cond, c1)
			}
		}
		kw := "if "
		if n > 0 {
			kw = ") else if "
		}
		ft.line(e, kw+cond+" then (")
		ft.caseBody(cc, e, k)
		n++
	}
	if n == 0 {
		p.failAt(s, "%s: switch without cases", ft.sum.key)
	}
	ft.line(e, ") else (")
	if def != nil {
		ft.caseBody(def, e, k)
	} else {
		k.f(e.indented())
	}
	ft.line(e, ")")
}

func (ft *ftrans) caseBody(cc *ast.CaseClause, e *env, k cont) {
	if alwaysReturns(cc.Body) {
		k = ft.unreachable(cc)
	}
	ft.branch(cc.Body, e.indented(), k)
}

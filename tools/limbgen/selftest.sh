#!/bin/bash
# Mutation self-test of limbgen + Proofs/Ff{,g}RoutinesEq.v.
# Works on scratch copies only (/tmp/lgrepo, /tmp/lgself); never touches /repo
# or /verif/coq.  For each mutant: copy /repo, apply ONE textual change inside
# one Go function, regenerate into the scratch tree, compile the generated file
# and the equality lemmas there, report which lemma fails.
set -u
export GOFLAGS=-mod=mod GOPROXY=off GOSUMDB=off GOTOOLCHAIN=local
# VERIF=/verif REPO=/repo by default (override to run on a scratch clone)
V=${VERIF:-/verif}
REPO=${REPO:-/repo}
BIN=$V/_build/bin/limbgen
R=/tmp/lgrepo
S=/tmp/lgself
C=$V/coq

setup_tree() {
  rm -rf $S; mkdir -p $S/coq/Gen $S/coq/Proofs
  ln -s $C/Lib $S/coq/Lib; ln -s $C/Model $S/coq/Model
  # limbgen outputs are never linked (limbgen would write through the link)
  for f in $C/Gen/*; do
    case $(basename $f) in FfRoutines.*|FfgRoutines.*|FfGlue.*|FfgGlue.*|FfMem.*|FfgMem.*) ;; *) ln -s $f $S/coq/Gen/ ;; esac
  done
  cp $C/Proofs/FfRoutinesEq.v $C/Proofs/FfgRoutinesEq.v $S/coq/Proofs/
}

# mutate <file> <function header substring> <old> <new>: replace the FIRST
# occurrence of <old> after the function header; fails if not found.
mutate() {
  python3 - "$R/$1" "$2" "$3" "$4" <<'EOF'
import sys
path, hdr, old, new = sys.argv[1:5]
s = open(path).read()
i = s.index(hdr)
j = s.index(old, i)
end = s.find("\nfunc ", i + 1)
if end < 0:
    end = len(s)
assert j < end, "pattern not inside the function"
s = s[:j] + new + s[j+len(old):]
open(path, "w").write(s)
EOF
  [ $? -eq 0 ] || { echo "selftest: mutation of $1 failed"; exit 1; }
}

run() { # label, coq file stem (FfRoutines / FfgRoutines)
  local label="$1" stem="$2"
  echo "== $label"
  $BIN $R $S > $S/gen.out 2> $S/gen.err; local rc=$?
  if [ $rc -eq 3 ]; then
    echo "   limbgen: EXIT 3 (glue functions not translated, see selftest_glue.sh) -- $(head -1 $S/gen.err | cut -c1-200)"
  elif [ $rc -ne 0 ]; then
    echo "   limbgen: EXIT $rc -- $(head -1 $S/gen.err)"; return
  fi
  if diff -q $C/Gen/$stem.v $S/coq/Gen/$stem.v >/dev/null; then
    echo "   generated $stem.v: UNCHANGED"
  else
    echo "   generated $stem.v: changed ($(diff $C/Gen/$stem.v $S/coq/Gen/$stem.v | grep -c '^[<>]') diff lines)"
  fi
  ( cd $S/coq
    for g in FfRoutines FfgRoutines; do
      timeout 600 coqc -Q . Verif Gen/$g.v > /dev/null 2> $S/err.txt || { echo "   Gen/$g.v: FAILS TO COMPILE: $(grep -m1 -A3 Error $S/err.txt | tr '\n' ' ')"; exit; }
    done
    local t0=$(date +%s.%N)
    if timeout 600 coqc -Q . Verif Proofs/${stem}Eq.v > /dev/null 2> $S/err.txt; then
      echo "   Proofs/${stem}Eq.v: COMPILES"
    else
      local line=$(grep -m1 -o 'line [0-9]*' $S/err.txt | cut -d' ' -f2)
      local lemma=$(head -n "$line" Proofs/${stem}Eq.v | grep -o '^Lemma [A-Za-z0-9_]*' | tail -1)
      printf "   Proofs/%sEq.v: FAILS at line %s (%s) after %.1fs: %s\n" "$stem" "$line" "$lemma" \
        "$(echo "$(date +%s.%N) - $t0" | bc)" "$(grep -A2 Error $S/err.txt | tr '\n' ' ')"
    fi )
}

fresh() { rm -rf $R; cp -r $REPO $R; setup_tree; }

fresh
run "baseline: unmodified copy of /repo (ff)" FfRoutines
run "baseline: unmodified copy of /repo (ffg)" FfgRoutines

fresh
mutate ff/element.go "func _addGeneric(" "bits.Add64(x[1], y[1], carry)" "bits.Add64(x[1], y[1], 0)"
run "(i) ff _addGeneric: carry-in 'carry' -> '0' in limb 1" FfRoutines

fresh
mutate ff/element.go "func _mulGeneric(" "madd2(v, y[1], c[1], t[1])" "madd2(v, y[1], t[1], c[1])"
run "(ii-a) ff _mulGeneric: two madd2 arguments swapped (round 1)" FfRoutines

fresh
mutate ff/element.go "func _mulGeneric(" "madd2(v, y[2], c[1], t[2])" "madd2(v, y[2], c[1], t[3])"
run "(ii-b) ff _mulGeneric: index t[2] -> t[3] in one madd2 (round 1)" FfRoutines

fresh
mutate ff/element.go "func _mulGeneric(" "c[1], c[0] = madd1(v, y[0], t[0])" "c[1], c[0] = madd2(v, y[0], t[0], 0)"
run "(ii-c) ff _mulGeneric: one madd1(..) -> madd2(.., 0)" FfRoutines

fresh
mutate ff/element.go "func _reduceGeneric(" "z[2] < 13281191951274694749" "z[2] <= 13281191951274694749"
run "(iii) ff _reduceGeneric: one '<' -> '<='" FfRoutines

fresh
mutate ff/element.go "func _subGeneric(" "	z[3], _ = bits.Add64(z[3], 3486998266802970665, c)
" ""
run "(iv) ff _subGeneric: last line of the correction dropped" FfRoutines

fresh
mutate ff/element.go "func (z *Element) Halve(" "z[1]<<63" "z[1]<<62"
run "(v) ff Halve: shift literal 63 -> 62" FfRoutines

fresh
mutate ff/arith.go "func madd2(" "hi, _ = bits.Add64(hi, 0, carry)" "hi, _ = bits.Add64(hi, 0, 0)"
run "(vi) ff arith.go madd2: carry dropped" FfRoutines

fresh
mutate ff/element.go "func mulByConstant(" "z.Double(z).Double(z).Add(z, &_z)" "z.Double(z).Add(z, &_z).Double(z)"
run "(vii) ff mulByConstant case 5: call order changed (computes 6z)" FfRoutines

fresh
mutate ff/element.go "func _fromMontGeneric(" "C, z[1] = madd2(m, 13281191951274694749, z[2], C)" "C, z[1] = madd2(m, 13281191951274694748, z[2], C)"
run "(viii) ff _fromMontGeneric: literal q2 off by one" FfRoutines

fresh
mutate ffg/element.go "func _mulGeneric(" "if t[1] != 0 {" "if t[1] == 0 {"
run "(ix) ffg _mulGeneric: '!=' -> '=='" FfgRoutines

fresh
mutate ffg/element.go "func _addGeneric(" "bits.Add64(x[0], y[0], 0)" "bits.Add64(x[0], y[0], 1)"
run "(x) ffg _addGeneric: carry-in 0 -> 1" FfgRoutines

fresh
mutate ff/element.go "func (z *Element) Inverse(" "v[1] = v[1]>>1 | v[2]<<63" "v[1] = v[1]>>1 | v[3]<<63"
run "(xi) ff Inverse, loop 1: v[2]<<63 -> v[3]<<63" FfRoutines

fresh
mutate ff/element.go "func (z *Element) Inverse(" "if borrow == 1 {" "if borrow != 0 {"
run "(xii) ff Inverse, tail: 'borrow == 1' -> 'borrow != 0' (same meaning, different text)" FfRoutines

fresh
mutate ff/element.go "func (z *Element) Inverse(" "z.Set(&r)" "z.Set(&s)"
run "(xiii) ff Inverse, tail: returns s instead of r at the first exit" FfRoutines

fresh
mutate ff/element.go "func (z *Element) Inverse(" "r[3], _ = bits.Add64(r[3], 3486998266802970665, carry)" "r[3], _ = bits.Add64(r[3], 3486998266802970665, 0)"
run "(xiv) ff Inverse, loop 2: carry-in dropped" FfRoutines

echo
echo "---- translator checks (limbgen must exit non-zero) ----"
fresh
mutate ff/element.go "func _addGeneric(" "bits.Add64(x[1], y[1], carry)" "bits.Add64(x[0], y[1], carry)"
run "(A) ff _addGeneric: reads x[0] after z[0] was written (in-place aliasing observable)" FfRoutines

fresh
mutate ff/element.go "func _doubleGeneric(" "	var carry uint64
" "	var carry uint64
	for i := 0; i < 1; i++ {
	}
"
run "(B) ff _doubleGeneric: a for loop (unsupported statement)" FfRoutines

fresh
mutate ff/element.go "func _subGeneric(" "z[0], b = bits.Sub64(x[0], y[0], 0)" "z[0], b = bits.Sub64(x[0]+1, y[0], 0)"
run "(C) ff _subGeneric: uint64 '+' (unsupported operator)" FfRoutines

fresh
mutate ff/element.go "func (z *Element) Inverse(" "		if bigger {" "		for borrow == 7 {
		}
		if bigger {"
run "(D) ff Inverse: a third inner loop after straight-line code (unsupported loop shape)" FfRoutines

rm -rf $R $S

#!/bin/bash
# Mutation self-test of the GLUE translator of limbgen (Gen/FfGlue.v,
# Gen/FfgGlue.v) + Proofs/Ff{,g}GlueEq.v.  Same method as selftest.sh: scratch
# copies only (/tmp/lggrepo, /tmp/lggself); for each mutant ONE textual change
# inside one Go function, regenerate into the scratch tree, compile the
# generated files and the equality lemmas there, report which lemma fails.
#   VERIF=/verif REPO=/repo tools/limbgen/selftest_glue.sh     (defaults)
# Needs the project built (make) in $VERIF/coq: the other .vo files are linked.
set -u
export GOFLAGS=-mod=mod GOPROXY=off GOSUMDB=off GOTOOLCHAIN=local
V=${VERIF:-/verif}
REPO=${REPO:-/repo}
BIN=$V/_build/bin/limbgen
R=/tmp/lggrepo
S=/tmp/lggself
C=$V/coq
GEN="FfRoutines FfgRoutines FfGlue FfgGlue"
EQ="FfRoutinesEq FfgRoutinesEq FfGlueEq FfgGlueEq"

setup_tree() {
  rm -rf $S; mkdir -p $S/coq/Gen $S/coq/Proofs
  ln -s $C/Lib $S/coq/Lib; ln -s $C/Model $S/coq/Model
  for f in $C/Gen/*; do
    case $(basename $f) in FfRoutines.*|FfgRoutines.*|FfGlue.*|FfgGlue.*|FfMem.*|FfgMem.*|.FfMem.*|.FfgMem.*|.FfRoutines.*|.FfgRoutines.*|.FfGlue.*|.FfgGlue.*) ;; *) ln -s $f $S/coq/Gen/ ;; esac
  done
  for f in $C/Proofs/*.vo; do
    case $(basename $f .vo) in FfRoutinesEq|FfgRoutinesEq|FfGlueEq|FfgGlueEq|FfMemEq|FfgMemEq) ;; *) ln -s $f $S/coq/Proofs/ ;; esac
  done
  for e in $EQ; do cp $C/Proofs/$e.v $S/coq/Proofs/; done
}

mutate() {
  python3 - "$R/$1" "$2" "$3" "$4" <<'EOF'
import sys
path, hdr, old, new = sys.argv[1:5]
s = open(path).read()
i = s.index(hdr)
j = s.index(old, i)
end = s.find("\nfunc ", i + 1)
if end < 0:
    end = len(s)
assert j < end, "pattern not inside the function"
s = s[:j] + new + s[j+len(old):]
open(path, "w").write(s)
EOF
  [ $? -eq 0 ] || { echo "selftest: mutation of $1 failed"; exit 1; }
}

run() { # label
  echo "== $1"
  $BIN $R $S > $S/gen.out 2> $S/gen.err; local rc=$?
  if [ $rc -eq 3 ]; then
    echo "   limbgen: EXIT 3 -- $(grep -m1 ERROR $S/gen.err | cut -c1-230)"
    echo "   markers: $(grep -ho '[A-Za-z0-9_]*__TRANSLATION_FAILED' $S/coq/Gen/FfGlue.v $S/coq/Gen/FfgGlue.v | sort -u | tr '\n' ' ')"
  elif [ $rc -ne 0 ]; then
    echo "   limbgen: EXIT $rc -- $(head -1 $S/gen.err)"; return
  fi
  for g in $GEN; do
    if diff -q $C/Gen/$g.v $S/coq/Gen/$g.v >/dev/null; then :; else
      echo "   generated $g.v: changed ($(diff $C/Gen/$g.v $S/coq/Gen/$g.v | grep -c '^[<>]') diff lines)"
    fi
  done
  ( cd $S/coq
    for g in $GEN; do
      timeout 600 coqc -Q . Verif Gen/$g.v > /dev/null 2> $S/err.txt || { echo "   Gen/$g.v: FAILS TO COMPILE: $(grep -m1 -A3 Error $S/err.txt | tr '\n' ' ')"; exit; }
    done
    local skipff=0 skipffg=0
    for e in $EQ; do
      [ $e = FfGlueEq ] && [ $skipff = 1 ] && { echo "   Proofs/FfGlueEq.v: not compiled (depends on FfRoutinesEq)"; continue; }
      [ $e = FfgGlueEq ] && [ $skipffg = 1 ] && { echo "   Proofs/FfgGlueEq.v: not compiled (depends on FfgRoutinesEq)"; continue; }
      local t0=$(date +%s.%N)
      if timeout 900 coqc -Q . Verif Proofs/$e.v > /dev/null 2> $S/err.txt; then
        echo "   Proofs/$e.v: COMPILES"
      else
        local line=$(grep -m1 -o 'line [0-9]*' $S/err.txt | cut -d' ' -f2)
        local lemma=$(head -n "$line" Proofs/$e.v | grep -o '^\(Lemma\|Theorem\|Corollary\) [A-Za-z0-9_]*' | tail -1)
        printf "   Proofs/%s.v: FAILS at line %s (%s) after %.1fs: %s\n" "$e" "$line" "$lemma" \
          "$(echo "$(date +%s.%N) - $t0" | bc)" "$(grep -A2 Error $S/err.txt | tr '\n' ' ' | cut -c1-200)"
        [ $e = FfRoutinesEq ] && skipff=1
        [ $e = FfgRoutinesEq ] && skipffg=1
      fi
    done )
}

fresh() { rm -rf $R; cp -r $REPO $R; rm -rf $R/.git; setup_tree; }

fresh
run "baseline: unmodified copy of the repository"

fresh
mutate ff/element.go "func (z *Element) Exp(" "exponent.BitLen() - 2" "exponent.BitLen() - 1"
run "(g1) ff Exp: loop start BitLen()-2 -> BitLen()-1 (one more iteration)"

fresh
mutate ff/element.go "func (z *Element) Exp(" "exponent.Bit(i) == 1" "exponent.Bit(i) == 0"
run "(g2) ff Exp: tested bit value 1 -> 0"

fresh
mutate ff/element.go "func (z *Element) Sqrt(" "w.Exp(*x, _bSqrtExponentElement)" "w.Exp(*x, _bLegendreExponentElement)"
run "(g3) ff Sqrt: wrong exponent constant"

fresh
mutate ff/element.go "func (z *Element) Sqrt(" "ge := int(r - m - 1)" "ge := int(r - m)"
run "(g4) ff Sqrt: number of squarings r-m-1 -> r-m"

fresh
mutate ff/element.go "func (z *Element) Sqrt(" "i < r-1; i++" "i < r; i++"
run "(g5) ff Sqrt: Legendre pre-test, r-1 -> r squarings"

fresh
mutate ff/element.go "func (z *Element) Sqrt(" "		y.Mul(&y, &t)
		b.Mul(&b, &g)" "		b.Mul(&b, &g)
		y.Mul(&y, &g)"
run "(g6) ff Sqrt: y updated with g instead of t"

fresh
mutate ff/element.go "func (z *Element) Inverse(" "		if bigger {" "		if !bigger {"
run "(g7) ff Inverse: the two branches of the outer loop swapped (fragment lemma of FfRoutinesEq)"

fresh
mutate ff/element.go "func (z *Element) Div(" "z.Mul(x, &yInv)" "z.Mul(&yInv, x)"
run "(g8) ff Div: operands of Mul swapped (same value, different text)"

fresh
mutate ff/element.go "func BatchInvert(" "for i := len(a) - 1; i >= 0; i--" "for i := len(a) - 2; i >= 0; i--"
run "(g9) ff BatchInvert: second loop starts at len-2"

fresh
mutate ff/element.go "func BatchInvert(" "			zeroes[i] = true
			continue" "			zeroes[i] = true"
run "(g10) ff BatchInvert: continue dropped in the first loop"

fresh
mutate ff/element.go "func (z *Element) Cmp(" "if _z[3] > _x[3] {" "if _z[0] > _x[0] {"
run "(g11) ff Cmp: first comparison on limb 0 instead of limb 3"

fresh
mutate ff/element.go "func (z *Element) LexicographicallyLargest(" "11669102379873075201" "11669102379873075202"
run "(g12) ff LexicographicallyLargest: threshold constant + 1"

fresh
mutate ff/element.go "func (z *Element) SetBigInt(" "c != 1 && v.Cmp(&zero) != -1" "c != 1 && v.Cmp(&zero) == 1"
run "(g13) ff SetBigInt: fast-path test v >= 0 -> v > 0"

fresh
mutate ff/element.go "func (z *Element) Bytes(" "binary.BigEndian.PutUint64(res[16:24], _z[1])" "binary.BigEndian.PutUint64(res[16:24], _z[2])"
run "(g14) ff Bytes: limb 2 written twice"

fresh
mutate ff/element.go "func (z *Element) Legendre(" "(l[2] == 7381016538464732718)" "(l[2] == 7381016538464732719)"
run "(g15) ff Legendre: one limb of the literal one changed"

fresh
mutate ffg/element.go "func (z *Element) Exp(" "z.Square(z)" "z.Square(&x)"
run "(g16) ffg Exp: squares x instead of z"

fresh
mutate ffg/element.go "func (z *Element) Inverse(" "x.ToBigIntRegular(&_xNonMont)" "x.ToBigInt(&_xNonMont)"
run "(g17) ffg Inverse: ToBigIntRegular -> ToBigInt (Montgomery form inverted)"

fresh
mutate ffg/element.go "func (z *Element) Halve(" "twoInv.SetOne().Double(&twoInv).Inverse(&twoInv)" "twoInv.SetOne().Inverse(&twoInv)"
run "(g18) ffg Halve: Double dropped"

fresh
mutate ffg/element.go "func (z *Element) Sqrt(" "r := uint64(32)" "r := uint64(31)"
run "(g19) ffg Sqrt: r = 31"

fresh
mutate ffg/element.go "func (z *Element) Sqrt(" "			m++" "			m += 2"
run "(g20) ffg Sqrt: m += 2 in the inner loop"

fresh
mutate ff/element.go "func (z *Element) BitLen(" "return 128 + bits.Len64(z[2])" "return 128 + bits.Len64(z[1])"
run "(g21) ff BitLen: wrong limb in one case"

fresh
mutate ffg/element.go "func BatchInvert(" "accumulator.Inverse(&accumulator)" "accumulator.Inverse(&a[0])"
run "(g22) ffg BatchInvert: inverts a[0] instead of the accumulated product"

echo
echo "---- benign refactorings (lemmas must still compile) ----"
fresh
mutate ff/element.go "func (z *Element) Legendre(" "	var l Element
	// z^((q-1)/2)
	l.Exp(*z, _bLegendreExponentElement)

	if l.IsZero() {" "	var l Element
	// a comment
	l.Exp(*z, _bLegendreExponentElement)
	if l.IsZero() {"
run "(b1) ff Legendre: comment / blank line changed"

fresh
mutate ffg/element.go "func (z *Element) setBigInt(" "z[i] = uint64(vBits[i])" "z[i] = uint64(vBits[0])"
run "(b2) ffg setBigInt: vBits[i] -> vBits[0] (same for the single word, different text)"

echo
echo "---- translator checks (limbgen must exit 3 and emit a marker) ----"
fresh
mutate ff/element.go "func (z *Element) Exp(" "		z.Square(z)
" "		z.Square(z)
		if i == 7 {
			break
		}
"
run "(E) ff Exp: break in the loop (unsupported statement)"

fresh
mutate ff/element.go "func (z *Element) Div(" "	var yInv Element
" "	var yInv Element
	z.SetZero()
"
run "(F) ff Div: z written before x, y are read (in-place aliasing observable)"

fresh
mutate ffg/element.go "func (z *Element) Cmp(" "	_z.FromMont()
" "	_z.FromMont()
	defer _x.FromMont()
"
run "(G) ffg Cmp: defer (unsupported statement)"

rm -rf $R $S

package main

import (
	"go/ast"
)

// assignCall: a, b = f(..) / a, b := f(..) with f a call with several results.
func (ft *ftrans) assignCall(s *ast.AssignStmt, def bool, e *env) {
	p := ft.p
	call, ok := unparen(s.Rhs[0]).(*ast.CallExpr)
	if !ok {
		p.failAt(s, "%s: several destinations need a call on the right", ft.sum.key)
	}
	ci := ft.resolveCall(e, call)
	if len(ci.outVars()) != 0 || ci.recvCall != nil {
		p.failAt(s, "%s: a call with *Element destinations cannot be assigned from", ft.sum.key)
	}
	rts := ci.resultTypes()
	if len(rts) != len(s.Lhs) {
		p.failAt(s, "%s: %d destinations for %d results", ft.sum.key, len(s.Lhs), len(rts))
	}
	// the call term first (operands are evaluated before the assignment)
	term := ft.callTerm(e, ci)
	type dst struct {
		v *gvar
		j int // < 0: scalar
	}
	var names []string
	var dsts []dst
	var fresh []*gvar
	used := map[string]bool{}
	for i, l := range s.Lhs {
		l = unparen(l)
		name := ""
		if v, j, ok := ft.limbRef(e, l); ok {
			if def || rts[i] != "uint64" {
				p.failAt(s, "%s: bad assignment to a limb", ft.sum.key)
			}
			name = ft.writeLimb(e, s, v, j)
			dsts = append(dsts, dst{v, j})
		} else if id, ok := l.(*ast.Ident); ok && id.Name == "_" {
			names = append(names, "_")
			continue
		} else if ok {
			v := e.lookup(id.Name)
			if def && v == nil {
				v = &gvar{name: id.Name, typ: rts[i]}
				fresh = append(fresh, v)
			} else if def || v == nil || v.typ != rts[i] {
				p.failAt(s, "%s: assignment to %s: unknown variable, redeclaration or type mismatch", ft.sum.key, id.Name)
			}
			name = v.name
			dsts = append(dsts, dst{v, -1})
		} else {
			p.failAt(s, "%s: unsupported assignment destination", ft.sum.key)
		}
		if used[name] {
			p.failAt(s, "%s: %s assigned twice in one statement", ft.sum.key, name)
		}
		used[name] = true
		names = append(names, name)
	}
	for _, v := range fresh {
		ft.declare(e, s, v)
	}
	ft.line(e, letPattern(names)+term+" in")
	for _, d := range dsts {
		if d.j < 0 {
			ft.noteScalarWrite(e, d.v)
			if (ci.builtin == "add64" || ci.builtin == "sub64") && len(s.Lhs) == 2 && isIdent(unparen(s.Lhs[1]), d.v.name) {
				e.st[d.v].carry = true // second result of bits.Add64 / Sub64
			}
		} else {
			ft.afterWriteLimb(e, d.v, d.j)
		}
	}
}

// returnStmt: `return`, `return <scalars>`, `return z`, `return z.M(..)`.
func (ft *ftrans) returnStmt(s *ast.ReturnStmt, e *env) {
	p := ft.p
	if ft.ptrRes {
		if len(s.Results) != 1 {
			p.failAt(s, "%s: return of a *Element needs one value", ft.sum.key)
		}
		var v *gvar
		switch x := unparen(s.Results[0]).(type) {
		case *ast.Ident:
			v = e.lookup(x.Name)
		case *ast.CallExpr:
			ci := ft.resolveCall(e, x)
			ft.callStmt(e, ci, nil)
			v = ci.retVar()
		}
		if v == nil || !v.ptrParam {
			p.failAt(s, "%s: the returned *Element is not one of the pointer parameters", ft.sum.key)
		}
		// WHICH pointer is returned is not part of the generated definition (callers
		// only use it to resolve chains), so it must be the conventional one: the
		// receiver, i.e. the first pointer parameter.
		for _, pv := range ft.pvars {
			if pv.ptrParam {
				if pv != v {
					p.failAt(s, "%s: returns the pointer %s; a *Element result must be the receiver / first pointer parameter %s", ft.sum.key, v.name, pv.name)
				}
				break
			}
		}
		if ft.sum.retAlias != "" && ft.sum.retAlias != v.name {
			p.failAt(s, "%s: returns %s here and %s elsewhere", ft.sum.key, v.name, ft.sum.retAlias)
		}
		ft.sum.retAlias = v.name
		ft.result(e, nil)
		return
	}
	if len(s.Results) == 0 {
		if len(ft.sum.results) != 0 && len(ft.named) == 0 {
			p.failAt(s, "%s: return without values", ft.sum.key)
		}
		ft.result(e, nil)
		return
	}
	if len(s.Results) != len(ft.sum.results) {
		p.failAt(s, "%s: return with %d values, %d expected", ft.sum.key, len(s.Results), len(ft.sum.results))
	}
	var vals []string
	for i, x := range s.Results {
		if ft.sum.results[i] == "bool" {
			vals = append(vals, ft.exprB(e, x))
		} else {
			vals = append(vals, ft.exprU(e, x))
		}
	}
	ft.result(e, vals)
}

// result emits the value of the function: final values of the written
// *Element parameters (Go order), then the scalar results.
func (ft *ftrans) result(e *env, scalars []string) {
	var parts []string
	for _, v := range ft.pvars {
		if v.ptrParam && ft.outSet[v] {
			parts = append(parts, ft.readWhole(e, ft.fd, v))
		}
	}
	if scalars == nil {
		for _, v := range ft.named {
			ft.noteScalarRead(e, v)
			scalars = append(scalars, v.name)
		}
	}
	parts = append(parts, scalars...)
	if len(parts) == 0 {
		ft.p.failAt(ft.fd, "%s: function writes nothing and returns nothing", ft.sum.key)
	}
	if ft.fragmented {
		ft.line(e, "inl "+paren(tupleOf(parts)))
		return
	}
	ft.line(e, tupleOf(parts))
}

package main

// globals3.go: is argument i / the receiver of this call provably not written?
// (see globals.go)

import (
	"go/ast"
)

// flatParams: receiver (if any) followed by the parameters, one entry per name.
func flatParams(fd *ast.FuncDecl) []ast.Expr {
	var out []ast.Expr
	add := func(fl *ast.FieldList) {
		if fl == nil {
			return
		}
		for _, f := range fl.List {
			n := len(f.Names)
			if n == 0 {
				n = 1
			}
			for i := 0; i < n; i++ {
				out = append(out, f.Type)
			}
		}
	}
	add(fd.Recv)
	add(fd.Type.Params)
	return out
}

// mayAccept: a parameter of type t may receive (a pointer to) the global.
func mayAccept(t ast.Expr, isBig bool) bool {
	if el, ok := t.(*ast.Ellipsis); ok {
		t = el.Elt
	}
	switch t := t.(type) {
	case *ast.StarExpr:
		if isBig {
			sel, ok := t.X.(*ast.SelectorExpr)
			return ok && sel.Sel.Name == "Int"
		}
		return isIdent(t.X, "Element")
	case *ast.Ident:
		switch t.Name {
		case "Element":
			return !isBig // a value copy; harmless, but let the summary decide
		case "uint64", "uint32", "uint16", "uint8", "byte", "uint", "int", "int64", "int32", "bool", "string", "float64":
			return false
		}
		return true // any, error, a named type of the package: unknown
	case *ast.ArrayType, *ast.MapType, *ast.ChanType, *ast.FuncType:
		return false
	}
	return true // interface types, pkg.Type, ...
}

// writtenBySummary: parameter idx (receiver = 0 for methods) of function key is
// written, according to the limb-level or glue summary; ok = false: no summary.
func (c *constCheck) writtenBySummary(key string, idx int) (written, ok bool) {
	if s, has := c.p.done[key]; has && idx < len(s.params) {
		pa := s.params[idx]
		return pa.typ == "elem" && s.isOut[pa.name], true
	}
	if c.gl != nil {
		if s, has := c.gl.done[key]; has && s.failed {
			// the callee got a __TRANSLATION_FAILED marker (and so did the calling glue
			// function): that failure is already reported (exit 3) and breaks the
			// lemmas; nothing is claimed about this call
			return false, true
		}
		if s, has := c.gl.done[key]; has && idx < len(s.params) {
			return s.params[idx].out, true
		}
	}
	return false, false
}

// checkArg: the global (or its address) is argument i of call ce.
func (c *constCheck) checkArg(id *ast.Ident, ce *ast.CallExpr, i int, isBig bool) {
	g := id.Name
	name, method := "", false
	switch f := unparen(ce.Fun).(type) {
	case *ast.Ident:
		name = f.Name
	case *ast.SelectorExpr:
		name, method = f.Sel.Name, true
	default:
		c.bad(id, g, "passed to a call the translator cannot resolve")
	}
	matched := false
	for _, fd := range c.funcs[name] {
		if (fd.Recv != nil) != method {
			continue
		}
		ps := flatParams(fd)
		idx := i
		if method {
			idx = i + 1
		}
		if idx >= len(ps) {
			if n := len(ps); n > 0 {
				if _, variadic := ps[n-1].(*ast.Ellipsis); variadic {
					idx = n - 1
				}
			}
		}
		if idx >= len(ps) || !mayAccept(ps[idx], isBig) {
			continue
		}
		matched = true
		if w, ok := c.writtenBySummary(funcKey(fd), idx); !ok || w {
			c.bad(id, g, "passed to "+funcKey(fd)+", which is not a translated function that leaves this parameter unwritten")
		}
	}
	if matched {
		return
	}
	if isBig && method && bigReadOnlyArgs[name] {
		return // a math/big method that only reads its arguments
	}
	c.bad(id, g, "passed to "+name+", which is not known to leave it unwritten")
}

// checkRecv: g.M(..).
func (c *constCheck) checkRecv(id *ast.Ident, m string, isBig bool) {
	g := id.Name
	if isBig {
		if !bigReadOnlyRecv[m] {
			c.bad(id, g, "receiver of big.Int."+m+" (not in the read-only list)")
		}
		return
	}
	matched := false
	for _, fd := range c.funcs[m] {
		if fd.Recv == nil {
			continue
		}
		matched = true
		if !isPtrElement(fd.Recv.List[0].Type) && isIdent(fd.Recv.List[0].Type, "Element") {
			continue // value receiver: works on a copy
		}
		if w, ok := c.writtenBySummary(funcKey(fd), 0); !ok || w {
			c.bad(id, g, "receiver of "+funcKey(fd)+", which is not a translated method that leaves its receiver unwritten")
		}
	}
	if !matched {
		c.bad(id, g, "receiver of unknown method "+m)
	}
}

package main

import (
	"fmt"
	"go/ast"
	"strconv"
)

// stmts: CPS over a statement list; k emits what follows, tail says that k
// only builds the function result.
func (mt *mtrans) stmts(list []ast.Stmt, tail bool, k func()) {
	for i, s := range list {
		rest := list[i+1:]
		switch s := s.(type) {
		case *ast.IfStmt:
			mt.ifStmt(s, rest, tail, k)
			return
		case *ast.SwitchStmt:
			mt.switchStmt(s, rest, tail, k)
			return
		case *ast.ForStmt:
			mt.fail(s, "loop")
		case *ast.ReturnStmt:
			if len(rest) != 0 {
				mt.fail(rest[0], "statement after return")
			}
			mt.returnStmt(s)
			return
		case *ast.BlockStmt:
			mt.push()
			mt.stmts(s.List, tail && len(rest) == 0, func() {
				mt.pop()
				mt.stmts(rest, tail, k)
			})
			return
		default:
			mt.simple(s)
		}
	}
	k()
}

func (mt *mtrans) branch(list []ast.Stmt, tail bool, k func()) {
	// the continuation runs INSIDE the branch (possibly once per branch):
	// work on a copy of the scopes and restore them afterwards
	var saved []map[string]*mvar
	for _, sc := range mt.scopes {
		c := map[string]*mvar{}
		for n, v := range sc {
			c[n] = v
		}
		saved = append(saved, c)
	}
	savedInd := mt.ind
	mt.ind += "  "
	mt.push()
	mt.stmts(list, tail, func() {
		mt.pop()
		k()
	})
	mt.scopes = saved
	mt.ind = savedInd
}

func (mt *mtrans) ifStmt(s *ast.IfStmt, rest []ast.Stmt, tail bool, k func()) {
	if s.Init != nil {
		mt.fail(s, "if with an init statement")
	}
	A := s.Body.List
	B, hasElse := elseList(s)
	retA, retB := alwaysReturns(A), hasElse && alwaysReturns(B)
	if (containsReturn(A) && !retA) || (hasElse && containsReturn(B) && !retB) {
		mt.fail(s, "a branch returns on some paths only")
	}
	after := func() { mt.stmts(rest, tail, k) }
	afterTail := tail && len(rest) == 0
	unreachable := func() { mt.fail(s, "internal: continuation of a returning branch used") }
	switch {
	case retA || retB:
		kA, kB := after, after
		if retA {
			kA = unreachable
		}
		if retB {
			kB = unreachable
		}
		mt.line("if " + mt.exprB(s.Cond) + " then (")
		mt.branch(A, afterTail, kA)
		mt.line(") else (")
		mt.branch(B, afterTail, kB)
		mt.line(")")
	case afterTail:
		mt.line("if " + mt.exprB(s.Cond) + " then (")
		mt.branch(A, true, k)
		mt.line(") else (")
		mt.branch(B, true, k)
		mt.line(")")
	default:
		names := mt.assignedOuter(append(append([]ast.Stmt{}, A...), B...))
		if len(names) == 0 {
			mt.fail(s, "if statement without any effect on outer variables")
		}
		cond := mt.exprB(s.Cond)
		fin := func() { mt.line(tupleOf(names)) }
		mt.line(letPattern(names))
		saved := mt.ind
		mt.ind += "  "
		mt.line("if " + cond + " then (")
		mt.branch(A, false, fin)
		mt.line(") else (")
		mt.branch(B, false, fin)
		mt.line(") in")
		mt.ind = saved
		mt.stmts(rest, tail, k)
	}
}

func (mt *mtrans) switchStmt(s *ast.SwitchStmt, rest []ast.Stmt, tail bool, k func()) {
	if s.Init != nil || s.Tag == nil || len(rest) != 0 || !tail {
		mt.fail(s, "only a tag switch as the last statement of a function is supported")
	}
	id, ok := unparen(s.Tag).(*ast.Ident)
	var tag *mvar
	if ok {
		tag = mt.lookup(id.Name)
	}
	if tag == nil || (tag.kind != "uint8" && tag.kind != "uint64") {
		mt.fail(s, "switch tag must be an integer variable")
	}
	caseBody := func(cc *ast.CaseClause) {
		kc := k
		if alwaysReturns(cc.Body) {
			kc = func() { mt.fail(cc, "internal: continuation of a returning case used") }
		}
		mt.branch(cc.Body, true, kc)
	}
	var def *ast.CaseClause
	n := 0
	for _, c := range s.Body.List {
		cc := c.(*ast.CaseClause)
		if containsReturn(cc.Body) && !alwaysReturns(cc.Body) {
			mt.fail(cc, "a case returns on some paths only")
		}
		if cc.List == nil {
			def = cc
			continue
		}
		cond := ""
		for _, x := range cc.List {
			lit, ok := mt.p.litU64(unparen(x))
			if !ok || (tag.kind == "uint8" && atoi(lit) > 255) {
				mt.fail(x, "case value is not an integer literal in range")
			}
			c1 := app("Z.eqb", tag.name, lit)
			if cond == "" {
				cond = c1
			} else {
				cond = app("orb", cond, c1)
			}
		}
		kw := "if "
		if n > 0 {
			kw = ") else if "
		}
		mt.line(kw + cond + " then (")
		caseBody(cc)
		n++
	}
	if n == 0 {
		mt.fail(s, "switch without cases")
	}
	mt.line(") else (")
	if def != nil {
		caseBody(def)
	} else {
		saved := mt.ind
		mt.ind += "  "
		k()
		mt.ind = saved
	}
	mt.line(")")
}

// returnStmt: `return`, `return <scalars>`, `return z`, `return z.M(..)`.
func (mt *mtrans) returnStmt(s *ast.ReturnStmt) {
	sum := mt.sum
	if sum.retAlias != "" {
		if len(s.Results) != 1 {
			mt.fail(s, "return of a *Element needs one value")
		}
		obj := ""
		switch x := unparen(s.Results[0]).(type) {
		case *ast.Ident:
			if v := mt.lookup(x.Name); v != nil && v.kind == "ptr" {
				obj = v.name
			}
		case *ast.CallExpr:
			ci := mt.resolve(x)
			mt.callStmt(ci, nil)
			obj = ci.retObj()
		}
		if obj != sum.retAlias {
			mt.fail(s, "the returned *Element is not the parameter %s", sum.retAlias)
		}
		mt.result(nil)
		return
	}
	if len(s.Results) == 0 {
		mt.result(nil)
		return
	}
	if len(s.Results) != len(sum.results) {
		mt.fail(s, "return with %d values, %d expected", len(s.Results), len(sum.results))
	}
	var vals []string
	for i, x := range s.Results {
		if sum.results[i] == "bool" {
			vals = append(vals, mt.exprB(x))
		} else {
			vals = append(vals, mt.exprU(x))
		}
	}
	mt.result(vals)
}

// newLocal declares a local Element: a fresh object of the frame.
func (mt *mtrans) newLocal(at ast.Node, name string) *mvar {
	v := &mvar{name: name, kind: "loc"}
	mt.declare(at, v)
	mt.line("let " + name + " := " + mt.frameAt(mt.nloc) + " in")
	mt.nloc++
	mt.ms.needsFrame = true
	return v
}

func (mt *mtrans) tmp() string {
	mt.ntmp++
	return fmt.Sprintf("r'%d", mt.ntmp)
}

func (mt *mtrans) storeLimb(obj string, j int, val string) {
	mt.line("let " + memVar + " := " + app("store", memVar, obj, strconv.Itoa(j), val) + " in")
}

func (mt *mtrans) storeWhole(obj, val string) {
	mt.line("let " + memVar + " := " + app("storeEl", memVar, obj, val) + " in")
}

package main

// Glue translator (see glue.go): types, variables, environments.

import (
	"go/ast"
	"sort"
	"strings"
)

type gkind int

const (
	kNone    gkind = iota
	kElem          // Element, *Element                 -> el
	kBig           // big.Int, *big.Int                 -> Z
	kU64           // uint64                            -> Z
	kInt           // int (assumed not to overflow)     -> Z
	kUint          // uint, big.Word                    -> Z
	kBool          // bool                              -> bool
	kElems         // []Element                         -> list el
	kBools         // []bool                            -> list bool
	kBytes         // []byte, [n]byte                   -> bytes
	kWords         // []big.Word                        -> list Z
	kUntyped       // untyped integer constant
)

func (k gkind) String() string {
	return [...]string{"?", "Element", "big.Int", "uint64", "int", "uint", "bool", "[]Element", "[]bool", "bytes", "[]big.Word", "untyped constant"}[k]
}

func (k gkind) coq() string {
	switch k {
	case kElem:
		return "el"
	case kBool:
		return "bool"
	case kElems:
		return "list el"
	case kBools:
		return "list bool"
	case kBytes:
		return "bytes"
	case kWords:
		return "list Z"
	}
	return "Z"
}

func (k gkind) isInt() bool { return k == kU64 || k == kInt || k == kUint || k == kUntyped }

// zero value of a kind (n: array length for kBytes arrays)
func (g *gtrans) zeroOf(k gkind, n int) string {
	switch k {
	case kElem:
		return "el_zero"
	case kBool:
		return "false"
	case kElems, kBools, kWords:
		return "nil"
	case kBytes:
		if n > 0 {
			return app("lmake", "0", itoa(n))
		}
		return "nil"
	}
	return "0"
}

func itoa(n int) string {
	if n < 0 {
		return "(-" + itoa(-n) + ")"
	}
	if n < 10 {
		return string(rune('0' + n))
	}
	return itoa(n/10) + string(rune('0'+n%10))
}

// gv is one Go variable of a glue function.
type gv struct {
	name   string
	kind   gkind
	ptr    bool // pointer parameter (*Element, *big.Int): writes are visible to the caller
	param  bool
	arrLen int // [n]byte
	seq    int
}

func (v *gv) limbNames(n int) []string {
	var ns []string
	for j := 0; j < n; j++ {
		ns = append(ns, v.name+itoa(j))
	}
	return ns
}

// gstate: flow-dependent state of a variable.
type gstate struct {
	defined bool // holds a value (false: arbitrary content, e.g. an object from bigIntPool)
	initial bool // pointer parameter: may still hold the caller's value
	entry   bool // may still hold the value it had at the head of the loop being analysed
	destr   bool // limbs currently bound to <name>0 .. <name>(n-1)
	carry   bool // uint64: the current value is 0 or 1 (a carry / borrow, see carry.go)
}

type genv struct {
	scopes []map[string]*gv
	st     map[*gv]*gstate
	ind    string
}

func newGenv() *genv {
	return &genv{scopes: []map[string]*gv{{}}, st: map[*gv]*gstate{}, ind: "  "}
}

func (e *genv) clone() *genv {
	c := &genv{st: map[*gv]*gstate{}, ind: e.ind}
	for _, s := range e.scopes {
		m := map[string]*gv{}
		for k, v := range s {
			m[k] = v
		}
		c.scopes = append(c.scopes, m)
	}
	for v, s := range e.st {
		cp := *s
		c.st[v] = &cp
	}
	return c
}

func (e *genv) indented() *genv { c := e.clone(); c.ind = e.ind + "  "; return c }
func (e *genv) push()           { e.scopes = append(e.scopes, map[string]*gv{}) }
func (e *genv) pop() {
	for _, v := range e.scopes[len(e.scopes)-1] {
		delete(e.st, v)
	}
	e.scopes = e.scopes[:len(e.scopes)-1]
}

func (e *genv) lookup(name string) *gv {
	for i := len(e.scopes) - 1; i >= 0; i-- {
		if v, ok := e.scopes[i][name]; ok {
			return v
		}
	}
	return nil
}

func (e *genv) all() []*gv {
	var vs []*gv
	for _, sc := range e.scopes {
		for _, v := range sc {
			vs = append(vs, v)
		}
	}
	sort.Slice(vs, func(i, j int) bool { return vs[i].seq < vs[j].seq })
	return vs
}

// merge: state after a join of two paths.
func (e *genv) merge(a, b *genv) {
	for v, s := range e.st {
		sa, sb := a.st[v], b.st[v]
		if sa == nil || sb == nil {
			continue
		}
		s.defined = sa.defined && sb.defined
		s.initial = sa.initial || sb.initial
		s.entry = sa.entry || sb.entry
		s.destr = false
		s.carry = sa.carry && sb.carry
	}
}

var glueReserved = map[string]bool{}

func init() {
	for _, w := range strings.Fields(`fuelled Done OutOfFuel wadd wsub int_of_u64 u64_of_int UintSize
		big_cmp big_bitlen big_bit big_bits big_mod big_modinverse_prime put_be64 lnth llen lupd lmake
		el_zero limb_get limb_set bytes be_val be_bytes nil cons Some None inl inr O S n fuel length
		FfRoutines FfgRoutines FfConsts FfgConsts`) {
		glueReserved[w] = true
	}
}

// declare introduces a variable (same restrictions as ftrans.declare).
func (g *gtrans) declare(e *genv, at ast.Node, v *gv, defined bool) {
	if v.name == "_" {
		g.fail(at, "declaration of _")
	}
	if e.lookup(v.name) != nil {
		g.fail(at, "declaration of %s shadows a live variable (unsupported)", v.name)
	}
	if _, isG := g.p.globals[v.name]; isG {
		g.fail(at, "local %s shadows a package-level Element", v.name)
	}
	names := []string{v.name}
	if v.kind == kElem && g.p.nlimbs > 1 {
		names = append(names, v.limbNames(g.p.nlimbs)...)
	}
	for _, cn := range names {
		if coqReserved[cn] || glueReserved[cn] || strings.Contains(cn, "'") || strings.HasPrefix(cn, "fuel") {
			g.fail(at, "variable %s: Coq identifier %s is reserved", v.name, cn)
		}
		if _, isF := g.p.coqUsed[cn]; isF {
			g.fail(at, "variable %s: Coq identifier %s is a generated definition", v.name, cn)
		}
		if _, isF := g.gl.coqUsed[cn]; isF {
			g.fail(at, "variable %s: Coq identifier %s is a generated definition", v.name, cn)
		}
		for _, u := range e.all() {
			un := []string{u.name}
			if u.kind == kElem && g.p.nlimbs > 1 {
				un = append(un, u.limbNames(g.p.nlimbs)...)
			}
			for _, x := range un {
				if x == cn {
					g.fail(at, "variables %s and %s would both use the Coq identifier %s", u.name, v.name, cn)
				}
			}
		}
	}
	g.nseq++
	v.seq = g.nseq
	e.scopes[len(e.scopes)-1][v.name] = v
	e.st[v] = &gstate{defined: defined}
}

// noteRead: the value of v is used here.
func (g *gtrans) noteRead(e *genv, at ast.Node, v *gv) {
	s := e.st[v]
	if s == nil {
		g.fail(at, "internal: variable %s has no state", v.name)
	}
	if !s.defined {
		g.fail(at, "%s is read here but holds no modelled value (declared without a value, or not assigned on every path)", v.name)
	}
	if v.ptr && s.initial {
		g.inSeen[v] = true
		// ALIASING CHECK (whole-variable granularity; ftrans checks per limb): the
		// caller's value of *v is read after another pointer parameter of the same
		// type has been written: with v == w (in-place call) Go would see the new
		// value, the functional translation the old one.
		for w := range g.outSeen {
			if w != v && w.ptr && w.kind == v.kind {
				g.fail(at, "ALIASING: *%s is read after *%s was written; with %s == %s the functional translation would be unsound",
					v.name, w.name, v.name, w.name)
			}
		}
	}
	if s.entry && g.liveIn != nil {
		g.liveIn[v] = true
	}
}

// noteWrite: v gets a new value here (a shadowing let has been emitted).
func (g *gtrans) noteWrite(e *genv, v *gv) {
	s := e.st[v]
	s.defined, s.initial, s.entry, s.destr, s.carry = true, false, false, false, false
	g.checkGuards(v)
	if g.pure > 0 {
		panic(transErr{g.key + ": assignment to " + v.name + " inside the right operand of && / || (conditional evaluation is not modelled)"})
	}
	if v.ptr {
		g.outSeen[v] = true
	}
}

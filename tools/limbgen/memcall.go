package main

import (
	"go/ast"
	"go/token"
)

// mcall is a resolved call at memory level.
type mcall struct {
	node    *ast.CallExpr
	builtin string            // add64 / sub64 / mul64
	sum     *summary          // value-level summary of the callee (nil: builtin)
	ms      *msummary         // nil: builtin or no *Element parameter
	fun     string            // Coq function to apply
	ptrArgs map[string]string // callee pointer parameter -> object id (Coq term)
	args    []ast.Expr        // callee parameter order; nil for a chained receiver
	recv    *mcall            // receiver is itself a call, executed first
}

func (ci *mcall) resultTypes() []string {
	if ci.builtin != "" {
		return []string{"uint64", "uint64"}
	}
	return ci.sum.results
}

func (ci *mcall) writes() bool { return ci.ms != nil && ci.ms.writes }

// retObj: the object a *Element result points to.
func (ci *mcall) retObj() string {
	if ci.sum == nil || ci.sum.retAlias == "" {
		return ""
	}
	return ci.ptrArgs[ci.sum.retAlias]
}

// objArg: an argument for a *Element parameter: p, &local, &global, or a
// local used as a method receiver.  The result is its object id.
func (mt *mtrans) objArg(x ast.Expr, isRecv bool) string {
	x = unparen(x)
	addr := false
	if u, ok := x.(*ast.UnaryExpr); ok && u.Op == token.AND {
		addr = true
		x = unparen(u.X)
	}
	id, ok := x.(*ast.Ident)
	if !ok {
		mt.fail(x, "unsupported *Element argument (%T)", x)
	}
	v := mt.lookup(id.Name)
	if v == nil {
		if _, isG := mt.p.globals[id.Name]; isG && addr {
			mt.ms.globals[id.Name] = true
			return "g_" + id.Name
		}
		mt.fail(x, "unknown variable %s", id.Name)
	}
	switch {
	case v.kind == "ptr" && !addr:
	case v.kind == "loc" && (addr || isRecv):
	default:
		mt.fail(x, "argument %s: expected a pointer parameter or &local", id.Name)
	}
	return v.name
}

func (mt *mtrans) resolve(call *ast.CallExpr) *mcall {
	p := mt.p
	ci := &mcall{node: call, ptrArgs: map[string]string{}}
	var key string
	var recv ast.Expr
	switch f := call.Fun.(type) {
	case *ast.SelectorExpr:
		if isIdent(f.X, "bits") && mt.lookup("bits") == nil {
			b, ok := bitsBuiltins[f.Sel.Name]
			if !ok || len(call.Args) != b.nargs {
				mt.fail(call, "unsupported call bits.%s", f.Sel.Name)
			}
			ci.builtin, ci.fun, ci.args = b.coq, b.coq, call.Args
			return ci
		}
		key, recv = "Element."+f.Sel.Name, unparen(f.X)
	case *ast.Ident:
		if mt.lookup(f.Name) != nil {
			mt.fail(call, "call of a variable")
		}
		key = f.Name
	default:
		mt.fail(call, "unsupported callee (%T)", call.Fun)
	}
	sum, ok := p.done[key]
	if !ok {
		mt.fail(call, "callee %s has no value-level translation", key)
	}
	ci.sum = sum
	ci.ms = p.memTranslate(key, call)
	if ci.ms != nil {
		ci.fun = ci.ms.name
		for g := range ci.ms.globals {
			mt.ms.globals[g] = true
		}
		if ci.ms.needsFrame {
			mt.ms.needsFrame = true
		}
	} else if ext, ok := p.cfg.externs[key]; ok {
		ci.fun = ext
	} else {
		ci.fun = p.cfg.module + "." + sum.coqName
	}
	args := call.Args
	if recv != nil {
		if rc, ok := recv.(*ast.CallExpr); ok {
			ci.recv = mt.resolve(rc)
			ro := ci.recv.retObj()
			if ro == "" {
				mt.fail(rc, "method called on the result of a call that does not return one of its *Element arguments")
			}
			ci.ptrArgs[sum.params[0].name] = ro
			args = append([]ast.Expr{nil}, args...)
		} else {
			args = append([]ast.Expr{recv}, args...)
		}
	}
	if len(args) != len(sum.params) {
		mt.fail(call, "call of %s with %d arguments, %d expected", key, len(args), len(sum.params))
	}
	ci.args = args
	for i, pa := range sum.params {
		if pa.typ == "elem" && args[i] != nil {
			ci.ptrArgs[pa.name] = mt.objArg(args[i], recv != nil && i == 0)
		}
	}
	return ci
}

// callTerm emits the receiver chain and returns the application.  Go
// evaluates the scalar arguments before the call: they are part of the term.
func (mt *mtrans) callTerm(ci *mcall) string {
	if ci.recv != nil {
		mt.callStmt(ci.recv, nil)
	}
	var as []string
	if ci.builtin != "" {
		for _, a := range ci.args {
			as = append(as, mt.exprU(a))
		}
		return app(ci.fun, as...)
	}
	for i, pa := range ci.sum.params {
		switch pa.typ {
		case "elem":
			as = append(as, ci.ptrArgs[pa.name])
		case "uint64":
			as = append(as, mt.exprU(ci.args[i]))
		case "bool":
			as = append(as, mt.exprB(ci.args[i]))
		case "uint8":
			a := unparen(ci.args[i])
			if lit, ok := mt.p.litU64(a); ok && atoi(lit) <= 255 {
				as = append(as, lit)
			} else if id, ok := a.(*ast.Ident); ok && mt.lookup(id.Name) != nil && mt.lookup(id.Name).kind == "uint8" {
				as = append(as, id.Name)
			} else {
				mt.fail(ci.node, "unsupported uint8 argument")
			}
		}
	}
	if ci.ms != nil {
		if ci.ms.needsFrame {
			as = append(as, "@FR@") // the callee's frame starts after this function's locals
		}
		as = append(as, memVar)
	}
	return app(ci.fun, as...)
}

// callStmt emits "let <M', scalar results> := f_mem args M' in".
func (mt *mtrans) callStmt(ci *mcall, scalarNames []string) {
	term := mt.callTerm(ci)
	var names []string
	if ci.writes() {
		names = append(names, memVar)
	}
	rts := ci.resultTypes()
	if scalarNames == nil {
		for range rts {
			names = append(names, "_")
		}
		if !ci.writes() {
			mt.fail(ci.node, "call statement without any effect")
		}
	} else {
		if len(scalarNames) != len(rts) {
			mt.fail(ci.node, "%d values assigned from a call with %d results", len(scalarNames), len(rts))
		}
		names = append(names, scalarNames...)
	}
	mt.line(letPattern(names) + term + " in")
}

// pureCall: a call inside an expression: no store result, one scalar.
func (mt *mtrans) pureCall(ci *mcall, want string) string {
	rts := ci.resultTypes()
	if ci.builtin != "" || ci.writes() || ci.recv != nil || len(rts) != 1 || rts[0] != want {
		mt.fail(ci.node, "this call cannot be used as a %s expression", want)
	}
	return mt.callTerm(ci)
}

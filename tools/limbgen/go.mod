module limbgen

go 1.20

package main

import (
	"go/ast"
	"go/token"
	"strings"
)

// lval: a place that holds an Element or a big.Int: a variable, an element of
// a []Element variable, or a package-level constant Element.
type lval struct {
	v      *gv
	idx    string   // Coq index term for a slice element
	global []string // limb literals of a package-level Element
	gname  string
}

type gres struct {
	term string
	kind gkind
}

func (g *gtrans) readLval(e *genv, at ast.Node, lv *lval) string {
	if lv.global != nil {
		return tupleOf(lv.global)
	}
	g.noteRead(e, at, lv.v)
	if lv.idx != "" {
		return app("lnth", "el_zero", lv.v.name, lv.idx)
	}
	return lv.v.name
}

// elemLval: an argument for a *Element parameter.
func (g *gtrans) elemLval(e *genv, x ast.Expr, isRecv bool) *lval {
	x = unparen(x)
	addr := false
	if u, ok := x.(*ast.UnaryExpr); ok && u.Op == token.AND {
		addr = true
		x = unparen(u.X)
	}
	switch y := x.(type) {
	case *ast.Ident:
		v := e.lookup(y.Name)
		if v == nil {
			if limbs, isG := g.p.globals[y.Name]; isG && addr {
				return &lval{global: limbs, gname: y.Name}
			}
			g.fail(x, "unknown variable %s", y.Name)
		}
		if v.kind != kElem {
			g.fail(x, "%s is not an Element", y.Name)
		}
		if v.ptr == addr && !(isRecv && !v.ptr) {
			g.fail(x, "argument %s: expected a pointer parameter or &variable", y.Name)
		}
		return &lval{v: v}
	case *ast.IndexExpr:
		if id, ok := unparen(y.X).(*ast.Ident); ok && (addr || isRecv) {
			if v := e.lookup(id.Name); v != nil && v.kind == kElems {
				return &lval{v: v, idx: g.indexTerm(e, y.Index)}
			}
		}
	case *ast.CallExpr:
		if !addr {
			_, alias := g.execCall(e, y)
			if alias != nil && alias.v != nil && alias.v.kind == kElem {
				return alias
			}
			g.fail(x, "method called on the result of a call that does not return one of its *Element arguments")
		}
	}
	g.fail(x, "unsupported *Element argument (%T)", x)
	return nil
}

// bigLval: a *big.Int argument / receiver that is written.
func (g *gtrans) bigLval(e *genv, x ast.Expr) *lval {
	x = unparen(x)
	if u, ok := x.(*ast.UnaryExpr); ok && u.Op == token.AND {
		x = unparen(u.X)
	}
	switch y := x.(type) {
	case *ast.Ident:
		if v := e.lookup(y.Name); v != nil && v.kind == kBig {
			return &lval{v: v}
		}
		if _, isG := g.gl.cfg.bigGlobals[y.Name]; isG {
			g.fail(x, "package-level %s used as a destination (assumed constant)", y.Name)
		}
	case *ast.CallExpr: // new(big.Int): a fresh object, value 0
		if isIdent(y.Fun, "new") && e.lookup("new") == nil && len(y.Args) == 1 {
			if k, _, _ := g.kindOfType(y.Args[0]); k == kBig {
				v := &gv{name: g.tmp("bigtmp"), kind: kBig}
				g.declare(e, x, v, true)
				g.line(e, "let "+v.name+" := 0 in")
				return &lval{v: v}
			}
		}
		_, alias := g.execCall(e, y)
		if alias != nil && alias.v != nil && alias.v.kind == kBig {
			return alias
		}
	}
	g.fail(x, "unsupported *big.Int destination (%T)", x)
	return nil
}

// fuelNameFor: the caller-side name of fuel parameter f of callee s.
func fuelNameFor(s *gsum, f string) string {
	if strings.HasPrefix(f, "fuel_") {
		return f
	}
	return "fuel_" + s.coqName + "_" + strings.TrimPrefix(f, "fuel")
}

// execCall emits a call; returns its value results and the place its pointer
// result designates (nil if none).
func (g *gtrans) execCall(e *genv, call *ast.CallExpr) ([]gres, *lval) {
	var key string
	var recv ast.Expr
	switch f := call.Fun.(type) {
	case *ast.Ident:
		if e.lookup(f.Name) != nil {
			g.fail(call, "call of a variable")
		}
		switch f.Name {
		case "uint64", "int", "uint", "len":
			t, k := g.callInt(e, call)
			return []gres{{t, k}}, nil
		case "make", "new", "panic", "append", "copy":
			g.fail(call, "unsupported use of %s", f.Name)
		}
		key = f.Name
	case *ast.SelectorExpr:
		if inner, ok := f.X.(*ast.SelectorExpr); ok && isIdent(inner.X, "binary") && inner.Sel.Name == "BigEndian" {
			g.putUint64(e, call, f.Sel.Name)
			return nil, nil
		}
		if isIdent(f.X, "bigIntPool") && e.lookup("bigIntPool") == nil {
			if f.Sel.Name == "Put" && len(call.Args) == 1 {
				return nil, nil // returning the temporary to the pool: no effect on values
			}
			g.fail(call, "unsupported use of bigIntPool")
		}
		if isIdent(f.X, "bits") && e.lookup("bits") == nil {
			t, k := g.callInt(e, call)
			return []gres{{t, k}}, nil
		}
		switch g.kindOf(e, f.X) {
		case kBig:
			return g.bigMethod(e, call, f)
		case kElem:
			key, recv = "Element."+f.Sel.Name, unparen(f.X)
		default:
			g.fail(call, "method %s on a receiver the translator does not understand", f.Sel.Name)
		}
	default:
		g.fail(call, "unsupported callee (%T)", call.Fun)
	}
	s := g.gl.summaryOf(key, g, call)
	if s.nilable {
		g.fail(call, "call of %s, which may return nil (unsupported)", key)
	}
	args := call.Args
	if recv != nil {
		args = append([]ast.Expr{recv}, args...)
	}
	if len(args) != len(s.params) {
		g.fail(call, "call of %s with %d arguments, %d expected", key, len(args), len(s.params))
	}
	var ins []string
	var outs []*lval
	bound := map[string]*lval{}
	for i, pa := range s.params {
		isRecv := recv != nil && i == 0
		switch {
		case pa.kind == kElem && pa.ptr:
			lv := g.elemLval(e, args[i], isRecv)
			bound[pa.name] = lv
			if pa.in {
				ins = append(ins, g.readLval(e, call, lv))
			}
			if pa.out {
				outs = append(outs, lv)
			}
		case pa.kind == kBig && pa.ptr:
			if pa.in {
				ins = append(ins, g.exprBig(e, args[i]))
			}
			if pa.out || s.retAlias == pa.name {
				lv := g.bigLval(e, args[i])
				bound[pa.name] = lv
				if pa.out {
					outs = append(outs, lv)
				}
			}
		default:
			ins = append(ins, g.exprOfKind(e, args[i], pa.kind))
		}
	}
	for i, a := range outs {
		if a.idx != "" {
			g.checkNotParamSlice(call, a.v)
		}
		if a.global != nil {
			g.fail(call, "package-level Element %s passed to %s as a destination", a.gname, key)
		}
		for _, b := range outs[:i] {
			if a.v == b.v {
				g.fail(call, "%s passed to %s for two destinations", a.v.name, key)
			}
		}
	}
	for _, pr := range s.noalias {
		a, b := bound[pr[0]], bound[pr[1]]
		if a == nil || b == nil || a.v == nil || a.v == b.v || (a.v.ptr && b.v.ptr) {
			g.fail(call, "%s assumes distinct pointers %s, %s; not guaranteed here", key, pr[0], pr[1])
		}
	}
	var fuelArgs []string
	for _, f := range s.fuels {
		n := fuelNameFor(s, f)
		g.useFuel(call, n)
		fuelArgs = append(fuelArgs, n)
	}
	term := app(s.qual+s.coqName, append(fuelArgs, ins...)...)
	var alias *lval
	if s.retAlias != "" {
		alias = bound[s.retAlias]
	}
	var results []gres
	if len(outs) == 0 && len(s.results) == 1 && len(s.fuels) == 0 {
		return []gres{{term, s.results[0]}}, alias
	}
	if len(outs) == 0 && len(s.results) == 0 {
		g.fail(call, "call of %s has no effect", key)
	}
	var names []string
	type fix struct {
		lv  *lval
		tmp string
	}
	var fixes []fix
	for _, lv := range outs {
		if lv.idx == "" {
			names = append(names, lv.v.name)
		} else {
			t := g.tmp("elt")
			names = append(names, t)
			fixes = append(fixes, fix{lv, t})
		}
	}
	for _, k := range s.results {
		t := g.tmp("ret")
		names = append(names, t)
		results = append(results, gres{t, k})
	}
	if g.pure > 0 {
		g.fail(call, "call with effects inside the right operand of && / || (conditional evaluation is not modelled)")
	}
	if len(s.fuels) != 0 {
		g.line(e, "match "+term+" with")
		g.line(e, "| OutOfFuel => OutOfFuel")
		g.line(e, "| Done "+tupleOf(names)+" =>")
		g.closers = append(g.closers, "end")
	} else {
		g.line(e, letPattern(names)+term+" in")
	}
	for _, fx := range fixes {
		g.noteRead(e, call, fx.lv.v)
		g.line(e, "let "+fx.lv.v.name+" := "+app("lupd", fx.lv.v.name, fx.lv.idx, fx.tmp)+" in")
	}
	for _, lv := range outs {
		g.noteWrite(e, lv.v)
	}
	return results, alias
}

// bigMethod: recv.M(args) for a big.Int receiver that is written.
func (g *gtrans) bigMethod(e *genv, call *ast.CallExpr, f *ast.SelectorExpr) ([]gres, *lval) {
	nargs := func(n int) {
		if len(call.Args) != n {
			g.fail(call, "big.Int.%s: %d arguments expected", f.Sel.Name, n)
		}
	}
	var term string
	switch f.Sel.Name {
	case "Cmp", "BitLen", "Bit":
		t, k := g.callInt(e, call)
		return []gres{{t, k}}, nil
	case "Bits":
		return []gres{{g.exprList(e, call, kWords), kWords}}, nil
	case "Set":
		nargs(1)
		term = g.exprBig(e, call.Args[0])
	case "SetBytes":
		nargs(1)
		term = app("be_val", g.exprBytes(e, call.Args[0]))
	case "Mod":
		nargs(2)
		a := g.exprBig(e, call.Args[0])
		term = app("big_mod", a, g.exprBig(e, call.Args[1]))
	case "ModInverse":
		nargs(2)
		a := g.exprBig(e, call.Args[0])
		term = app("big_modinverse_prime", a, g.exprBig(e, call.Args[1]))
	default:
		g.fail(call, "unsupported big.Int method %s", f.Sel.Name)
	}
	lv := g.bigLval(e, f.X)
	g.line(e, "let "+lv.v.name+" := "+term+" in")
	g.noteWrite(e, lv.v)
	return nil, lv
}

// putUint64: binary.BigEndian.PutUint64(b[lo:hi], v) with hi - lo = 8.
func (g *gtrans) putUint64(e *genv, call *ast.CallExpr, name string) {
	if name != "PutUint64" || len(call.Args) != 2 {
		g.fail(call, "unsupported call binary.BigEndian.%s", name)
	}
	sl, ok := unparen(call.Args[0]).(*ast.SliceExpr)
	if !ok || sl.Low == nil || sl.High == nil || sl.Slice3 {
		g.fail(call, "PutUint64: the destination must be b[lo:hi]")
	}
	id, ok := unparen(sl.X).(*ast.Ident)
	var v *gv
	if ok {
		v = e.lookup(id.Name)
	}
	lo, ok1 := g.gl.constInt(sl.Low)
	hi, ok2 := g.gl.constInt(sl.High)
	if v == nil || v.kind != kBytes || v.arrLen <= 0 || !ok1 || !ok2 || hi-lo != 8 || hi > v.arrLen {
		g.fail(call, "PutUint64: the destination must be b[lo:lo+8] with constant bounds inside a byte array variable")
	}
	val := g.exprOfKind(e, call.Args[1], kU64)
	g.noteRead(e, call, v)
	g.line(e, "let "+v.name+" := "+app("put_be64", v.name, itoa(lo), val)+" in")
	g.noteWrite(e, v)
}

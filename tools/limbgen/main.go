// limbgen: translator from the limb-level field routines of
// iden3/go-iden3-crypto (packages ff and ffg) to Gallina.
//
//	limbgen [-noaliascheck] <repo> <verif>
//
// writes <verif>/coq/Gen/FfRoutines.v and <verif>/coq/Gen/FfgRoutines.v (and
// their memory-level counterparts Gen/FfMem.v, Gen/FfgMem.v, see mem.go), then
// <verif>/coq/Gen/FfGlue.v and <verif>/coq/Gen/FfgGlue.v (a file is rewritten
// only when its content changes).  The hand-written models
// Model/FfLimbs.v and Model/FfgLimbs.v, which all theorems are about, are tied
// to these generated files by Proofs/FfRoutinesEq.v and Proofs/FfgRoutinesEq.v
// (lemmas gen_<name>_eq, proved by conversion): any edit of a translated Go
// routine changes the generated file and breaks a lemma.
//
// # Sources
//
// For each package: element.go, arith.go and element_ops_noasm.go (the
// portable dispatch "func add(z, x, y) { _addGeneric(z, x, y) }"; the amd64
// assembly is a different implementation and is out of scope here).  The
// requested roots (see configs below) and, transitively, every function they
// call are translated; nothing else is looked at.
//
// # Translation scheme
//
//   - uint64 values are Z.  An Element (type [N]uint64) is the tuple of its N
//     limbs, type el = Z * ... * Z (N = 1: el = Z).  A Go variable x of type
//     Element / *Element / [k]uint64 is either "whole" (Coq variable x) or
//     "in limbs" (Coq variables x0 .. x(N-1)); x[i] with a CONSTANT index is
//     xi.  A whole variable is destructured, "let '(x0, x1, x2, x3) := x in",
//     right before the first statement that indexes it; limbs are re-tupled
//     "(x0, x1, x2, x3)" where the whole value is needed (call argument,
//     result, copy).
//   - A Go function becomes one Coq definition.  Its arguments are, in Go
//     order (receiver first), the *Element parameters whose pointee is READ
//     while it may still hold the caller's value ("in" parameters; computed by
//     a flow analysis, a pure destination such as z in _addGeneric(z, x, y) is
//     no argument), then the scalar parameters.  Its result is the tuple of the
//     final values of the *Element parameters that are WRITTEN ("out"), in Go
//     order, followed by the scalar results.  A result of type *Element must
//     be one of the pointer parameters (return z / return z.M(..)): it is not
//     a value, the translator only remembers which parameter it is, to resolve
//     chains z.Double(z).Add(z, &_z).
//   - Statements become nested lets, in the same order; a Go re-assignment is
//     a shadowing let with the SAME name:
//     z[0], carry = bits.Add64(x[0], y[0], 0) -> let '(z0, carry) := add64 x0 y0 0 in
//     var t [4]uint64 / var c uint64 / var y Element  -> lets of zeros
//     m := c[0] * K        -> let m := wmul c0 K in          (wrapping multiply)
//     z[3] >>= 1           -> let z3 := shr64 z3 1 in
//     >> << | & with uint64 operands -> shr64 shl64 or64 and64 (constant shift counts)
//     bits.Add64 / Sub64 / Mul64    -> Words.add64 / sub64 / mul64
//     madd0..3(..)         -> Words.madd0..3 (and arith.go's madd0..3 are
//     translated too, so that Proofs/*RoutinesEq.v can state they are equal)
//     == != < <= > >= on uint64 -> Z.eqb, negb (Z.eqb ..), Z.ltb, Z.leb, Z.gtb, Z.geb
//     && || !              -> andb orb negb, same syntactic order
//     *z = Element{v} / _z := *z / t := *a -> whole-value lets
//     f(z, x, y), z.M(x)   -> let z := <generated f> x y in   (out parameters
//     of the callee are re-bound, in parameters are passed by value)
//     { ... }              -> inlined; the block's own variables die at the end
//   - Integer literals stay literals (Z numerals).
//   - if c { A } followed by R (no else):
//     A ends in return            -> if c then [A] else [R]
//     R empty, function tail      -> if c then [A; result] else result
//     otherwise ("join")          -> let '(vars) := if c then [A; (vars)] else (vars) in [R]
//     where vars are the OUTER variables (limb granularity) assigned in A, in
//     order of first assignment.  if/else: both branches likewise.  A branch
//     that returns on some paths only is rejected.
//   - switch tag { case k: .. default: .. } in tail position over a scalar:
//     if Z.eqb tag k then .. else if .. else [default].
//   - Loops: a function with a loop cannot be one Gallina definition.  The one
//     supported shape, `P; for { for c1 {B1}; ..; for cn {Bn}; T }` (ff's
//     Inverse), is translated to straight-line FRAGMENTS F_pre, F_loopk_cond,
//     F_loopk_body, F_tail over the tuple of the variables that are live at
//     the head of the outer loop; see loops.go.  The hand model glues the
//     fragments with its fuel-bounded fixpoints and the Eq file identifies
//     each hand-written piece with a fragment.  A fragmented function cannot
//     be called from translated code.
//   - any other loop, goto, defer, closures, shadowing of an outer variable by
//     an inner declaration, non-constant indices, +, -, /, % on uint64, any
//     statement or expression form not listed: the translator STOPS with exit
//     status 1 and a message giving the source position.  Nothing is skipped
//     silently.
//
// # Assumptions (what makes the functional reading sound)
//
//   - Destination aliasing.  Distinct *Element parameters of one Go function
//     may point to the same array (z.Add(z, x)).  The functional model reads
//     parameters as immutable values, which is faithful iff the Go code never
//     reads limb j through parameter p after limb j has been written through
//     another parameter q (and never returns such a limb).  The translator
//     CHECKS this on every path of every translated function (per limb, calls
//     count as "read all in-arguments, then write all out-arguments") and
//     exits 1 on a violation.  Local Element variables are distinct memory.
//     This check is a fast pre-check only: the same statement is PROVED, for
//     every aliasing pattern, in Proofs/Ff{,g}MemEq.v from the memory-level
//     translation (mem.go; README.md "Memory-level output").
//     The only exception is listed in `noalias` below: _butterflyGeneric(a, b)
//     is translated under the assumption a != b (it is wrong in Go as well as
//     in the model when a == b); the generated file says so.
//   - Package-level `var g = Element{literals}` (qElement, rSquare) are
//     constants: the translator checks that no statement of the package
//     assigns to them and only passes &g as an "in" argument.
//   - A *Element result is the receiver/parameter it aliases (checked).
//
// # Element-level functions with loops and calls ("glue")
//
// After the limb-level translation of a package the glue translator (glue.go,
// g*.go; documented in README.md) translates Exp, Legendre, Sqrt, Inverse (the
// loops around the fragments above), Div, BatchInvert, the big.Int / byte
// conversions, Cmp, LexicographicallyLargest ... into Gen/FfGlue.v and
// Gen/FfgGlue.v, which refer to the definitions of Gen/Ff{,g}Routines.v by
// qualified name.  A glue function that cannot be translated gets a marker
// definition <name>__TRANSLATION_FAILED and limbgen exits with status 3 (the
// limb-level part keeps exit status 1 for any failure).
//
// # Fail-closed rules (each documented in its file; README.md "Checked / rejected")
//
// globals.go (constants are never written, in ANY file of the package; the names
// bits/big/binary denote math/bits, math/big, encoding/binary), constexpr.go
// (constant expressions are exact in Go; `x := 5` is an int), carry.go (the
// carry-in of bits.Add64/Sub64 is 0 or 1), galias.go (no aliasing copies of
// pointers / slices / big.Ints in the glue, no writes to slice parameters),
// ret.go / gstmt.go (the returned pointer is the receiver).
//
// Left out altogether: SetRandom, String, SetString, SetInterface, Bit.
package main

import (
	"bytes"
	"fmt"
	"os"
	"path/filepath"
	"strings"
)

// noAliasCheck (flag -noaliascheck, for the self-test only): the syntactic
// per-limb aliasing pre-check of the limb-level translator (access.go) only
// WARNS, so that the lemmas of Proofs/Ff{,g}MemEq.v are what rejects a
// routine that is wrong for in-place calls.
var noAliasCheck bool

type config struct {
	pkgDir  string   // directory under <repo>
	module  string   // Coq file name without .v
	files   []string // source files
	roots   []string // function keys: "name" or "Element.name"
	externs map[string]string
	// function key -> pairs of pointer parameters assumed distinct
	noalias map[string][][2]string
}

var maddExterns = map[string]string{
	"madd0": "Words.madd0", "madd1": "Words.madd1",
	"madd2": "Words.madd2", "madd3": "Words.madd3",
}

var configs = []config{
	{
		pkgDir: "ff", module: "FfRoutines",
		files: []string{"element.go", "arith.go", "element_ops_noasm.go"},
		roots: []string{
			"madd0", "madd1", "madd2", "madd3",
			"Element.IsZero", "Element.Equal", "Element.SetZero", "Element.SetOne",
			"Element.Set", "_mulGeneric", "_fromMontGeneric", "_addGeneric",
			"_doubleGeneric", "_subGeneric", "_negGeneric", "_reduceGeneric",
			"Element.Halve", "Element.Square", "Element.SetUint64", "Element.ToMont",
			"Element.Neg", "Element.FromMont", "reduce",
			"mulByConstant", "MulBy3", "MulBy5", "MulBy13", "_butterflyGeneric",
			"Butterfly", "Element.Inverse",
		},
		externs: maddExterns,
		noalias: map[string][][2]string{
			"_butterflyGeneric": {{"a", "b"}},
			"Butterfly":         {{"a", "b"}},
		},
	},
	{
		pkgDir: "ffg", module: "FfgRoutines",
		files: []string{"element.go", "arith.go", "element_ops_noasm.go"},
		roots: []string{
			"madd0",
			"Element.IsZero", "Element.Equal", "Element.SetZero", "Element.SetOne",
			"Element.Set", "_mulGeneric", "_fromMontGeneric", "_addGeneric",
			"_doubleGeneric", "_subGeneric", "_negGeneric", "_reduceGeneric",
			"Element.Square", "Element.SetUint64", "Element.ToMont",
			"Element.Neg", "Element.FromMont", "reduce",
			"mulByConstant", "MulBy3", "MulBy5", "MulBy13", "_butterflyGeneric",
			"Butterfly",
		},
		externs: map[string]string{"madd0": "Words.madd0"},
		noalias: map[string][][2]string{
			"_butterflyGeneric": {{"a", "b"}},
			"Butterfly":         {{"a", "b"}},
		},
	},
}

func fatalf(format string, args ...interface{}) {
	if glueMode { // glue phase: only the current function fails (marker definition, exit 3)
		panic(transErr{fmt.Sprintf(format, args...)})
	}
	fmt.Fprintf(os.Stderr, "limbgen: ERROR: "+format+"\n", args...)
	os.Exit(1)
}

func writeIfChanged(path string, content []byte) {
	old, err := os.ReadFile(path)
	if err == nil && bytes.Equal(old, content) {
		return
	}
	if err := os.MkdirAll(filepath.Dir(path), 0o755); err != nil {
		fatalf("%v", err)
	}
	if err := os.WriteFile(path, content, 0o644); err != nil {
		fatalf("%v", err)
	}
	fmt.Println("limbgen: wrote", path)
}

func main() {
	args := os.Args[1:]
	for len(args) > 0 && strings.HasPrefix(args[0], "-") {
		switch args[0] {
		case "-noaliascheck":
			noAliasCheck = true
		default:
			fmt.Fprintln(os.Stderr, "limbgen: unknown flag", args[0])
			os.Exit(2)
		}
		args = args[1:]
	}
	if len(args) != 2 {
		fmt.Fprintln(os.Stderr, "usage: limbgen [-noaliascheck] <repo> <verif>")
		os.Exit(2)
	}
	repo, verif := args[0], args[1]
	nfail := 0
	for i := range configs {
		cfg := &configs[i]
		p := loadPkg(filepath.Join(repo, cfg.pkgDir), cfg)
		for _, r := range cfg.roots {
			p.translate(r, nil)
		}
		out := p.emitFile()
		mem := p.emitMemFile()
		gl, glueText, nf := runGlue(p)
		// the constants the translations rely on are never written, anywhere in the
		// package (globals.go); checked BEFORE anything is written
		p.checkConstGlobals(gl)
		writeIfChanged(filepath.Join(verif, "coq", "Gen", cfg.module+".v"), []byte(out))
		writeIfChanged(filepath.Join(verif, "coq", "Gen", strings.TrimSuffix(cfg.module, "Routines")+"Mem.v"), []byte(mem))
		if gl != nil {
			writeIfChanged(filepath.Join(verif, "coq", "Gen", gl.cfg.module+".v"), []byte(glueText))
		}
		nfail += nf
	}
	if nfail > 0 {
		os.Exit(3)
	}
}

package main

// globals.go: the package-level Element literals (qElement, rSquare) and the
// package-level big.Int variables (_modulus, ...) are read as CONSTANTS by
// both translators.  checkConstGlobals makes that assumption a checked fact:
//
//   - EVERY non-test .go file of the package is scanned (not only the three
//     translated ones); a file is left out only if its build constraint needs
//     a custom tag (gofuzz, verif, ...), and such a file may not declare a
//     constant global or a translated function that a scanned file declares
//     too (tag-switched twin definitions);
//   - identifiers are resolved with the parser's scopes (a local variable of
//     the same name is a different object, wherever it is declared);
//   - a use of a constant global g is accepted only in these forms:
//     Element g:  g[i] read, g copied as a value, `&g` / `g` as the argument /
//     receiver of a TRANSLATED function whose summary says that parameter is
//     not written;
//     big.Int g:  `&g` / `g` as an argument as above or as an argument of a
//     big.Int method that only reads its arguments, `g.M(..)` with a read-only
//     big.Int method M; in init(): exactly one `g.SetString(..)` /
//     `g, _ = new(big.Int).SetString(..)` per variable (the value constgen reads);
//   - everything else (assignment, ++, g[i] = .., &g[i], g[:], copy(g[:], ..),
//     p := &g, return &g, x := g for a big.Int, g.AnyOtherMethod(..), any use
//     in init()) is a possible write: limbgen exits 1.

import (
	"go/ast"
	"go/build/constraint"
	"go/parser"
	"go/token"
	"os"
	"path/filepath"
	"sort"
	"strings"
)

// knownTags: build tags whose value depends on the platform / toolchain, not on
// a -tags flag.  Three-valued evaluation: known tag = may be true or false,
// any other (custom) tag = false.
func knownTag(t string) bool {
	switch t {
	case "gc", "gccgo", "cgo", "unix", "purego", "race", "msan", "asan",
		"aix", "android", "darwin", "dragonfly", "freebsd", "hurd", "illumos", "ios", "js", "linux", "nacl",
		"netbsd", "openbsd", "plan9", "solaris", "wasip1", "windows", "zos",
		"386", "amd64", "arm", "arm64", "loong64", "mips", "mips64", "mips64le", "mipsle", "ppc64",
		"ppc64le", "riscv64", "s390x", "sparc64", "wasm":
		return true
	}
	return strings.HasPrefix(t, "go1") || strings.HasPrefix(t, "amd64.") || strings.HasPrefix(t, "arm64.")
}

// tri: 0 = false, 1 = unknown, 2 = true
func evalTri(x constraint.Expr) int {
	switch x := x.(type) {
	case *constraint.TagExpr:
		if knownTag(x.Tag) {
			return 1
		}
		return 0
	case *constraint.NotExpr:
		return 2 - evalTri(x.X)
	case *constraint.AndExpr:
		a, b := evalTri(x.X), evalTri(x.Y)
		if a < b {
			return a
		}
		return b
	case *constraint.OrExpr:
		a, b := evalTri(x.X), evalTri(x.Y)
		if a > b {
			return a
		}
		return b
	}
	return 1
}

// needsCustomTag: the file can only be compiled with a -tags flag.
func needsCustomTag(f *ast.File) bool {
	for _, cg := range f.Comments {
		if cg.Pos() >= f.Package {
			break
		}
		for _, c := range cg.List {
			if !constraint.IsGoBuild(c.Text) && !constraint.IsPlusBuild(c.Text) {
				continue
			}
			x, err := constraint.Parse(c.Text)
			if err != nil {
				return false // scan it
			}
			if evalTri(x) == 0 {
				return true
			}
		}
	}
	return false
}

// topNames: the package-level names a file declares (init and _ excluded).
func topNames(f *ast.File) []string {
	var out []string
	for _, d := range f.Decls {
		switch d := d.(type) {
		case *ast.FuncDecl:
			if k := funcKey(d); k != "init" && k != "_" {
				out = append(out, k)
			}
		case *ast.GenDecl:
			for _, s := range d.Specs {
				switch s := s.(type) {
				case *ast.TypeSpec:
					out = append(out, s.Name.Name)
				case *ast.ValueSpec:
					for _, n := range s.Names {
						if n.Name != "_" {
							out = append(out, n.Name)
						}
					}
				}
			}
		}
	}
	return out
}

// scanFiles parses every non-test .go file of the package WITH object
// resolution and returns the files to scan.
func (p *pkg) scanFiles(important map[string]bool) []*ast.File {
	names, err := filepath.Glob(filepath.Join(p.dir, "*.go"))
	if err != nil {
		fatalf("%v", err)
	}
	sort.Strings(names)
	var scan, skipped []*ast.File
	for _, fn := range names {
		if strings.HasSuffix(fn, "_test.go") {
			continue
		}
		src, err := os.ReadFile(fn)
		if err != nil {
			fatalf("%v", err)
		}
		f, err := parser.ParseFile(p.fset, fn, src, parser.ParseComments)
		if err != nil {
			fatalf("%v", err)
		}
		checkTrustedImports(p, f)
		if needsCustomTag(f) {
			skipped = append(skipped, f)
		} else {
			scan = append(scan, f)
		}
	}
	// `const true = false`, `func len(..)`, `type uint64 ..` at package level are legal
	// Go and would silently change the meaning of every translated routine
	for _, f := range append(append([]*ast.File{}, scan...), skipped...) {
		for _, n := range topNames(f) {
			if predeclared[n] {
				p.failAt(f.Name, "the predeclared identifier %s is redeclared at package level in this file", n)
			}
		}
	}
	declared := map[string]bool{}
	for _, f := range scan {
		for _, n := range topNames(f) {
			declared[n] = true
		}
	}
	for _, f := range skipped {
		for _, n := range topNames(f) {
			if declared[n] && important[n] { // a constant global or a translated function
				p.failAt(f.Name, "%s is declared here (file needs a custom build tag) and in a file of the default build: tag-switched definitions are not supported", n)
			}
		}
	}
	return scan
}

var predeclared = map[string]bool{}

func init() {
	for _, n := range strings.Fields(`bool byte complex64 complex128 error float32 float64 int int8 int16 int32 int64
		rune string uint uint8 uint16 uint32 uint64 uintptr any comparable true false iota nil
		append cap clear close complex copy delete imag len make max min new panic print println real recover`) {
		predeclared[n] = true
	}
}

// trustedImports: the library packages whose calls the translators model.
// A file that binds one of these names to any other import path is rejected.
var trustedImports = map[string]string{
	"bits": "math/bits", "big": "math/big", "binary": "encoding/binary",
}

func checkTrustedImports(p *pkg, f *ast.File) {
	for _, im := range f.Imports {
		path := strings.Trim(im.Path.Value, "\"`")
		name := path[strings.LastIndex(path, "/")+1:]
		if im.Name != nil {
			name = im.Name.Name
		}
		if want, ok := trustedImports[name]; ok && path != want {
			p.failAt(im, "the name %s is bound to the import %q; the translator models it as %q", name, path, want)
		}
		if name == "." {
			p.failAt(im, "dot import of %q (unsupported)", path)
		}
	}
}

var _ = token.NoPos

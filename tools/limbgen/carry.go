package main

// carry.go: bits.Add64(x, y, carry) / bits.Sub64(x, y, borrow) are specified
// for carry, borrow in {0, 1} only ("otherwise the behavior is undefined"; the
// compiler intrinsic and the portable code then differ), and Words.add64 /
// sub64 model exactly that contract.  The third argument must therefore be the
// literal 0 or 1, or a scalar variable whose CURRENT value is a carry: it was
// last assigned as the second result of bits.Add64 / bits.Sub64, or it still
// has the zero value of its `var c uint64` declaration.  This is tracked per
// path in the variable state (vstate.carry / gstate.carry: reset by every
// other write, AND at joins, false at loop heads).  Anything else stops the
// translator.

import (
	"go/ast"
	"go/token"
)

// carryLit: x is the literal 0 or 1.
func carryLit(x ast.Expr) bool {
	bl, isLit := unparen(x).(*ast.BasicLit)
	return isLit && bl.Kind == token.INT && (bl.Value == "0" || bl.Value == "1")
}

// carryArgOK (limb level): x may be the third argument of bits.Add64 / Sub64.
func (ft *ftrans) carryArgOK(e *env, x ast.Expr) bool {
	if carryLit(x) {
		return true
	}
	if id, ok := unparen(x).(*ast.Ident); ok {
		if v := e.lookup(id.Name); v != nil && e.st[v] != nil {
			return e.st[v].carry
		}
	}
	return false
}

// carryArgOK (glue level).
func (g *gtrans) carryArgOK(e *genv, x ast.Expr) bool {
	if carryLit(x) {
		return true
	}
	if id, ok := unparen(x).(*ast.Ident); ok {
		if v := e.lookup(id.Name); v != nil && e.st[v] != nil {
			return e.st[v].carry
		}
	}
	return false
}

package main

// globals2.go: the use-by-use check of checkConstGlobals (see globals.go).

import (
	"go/ast"
	"go/token"
)

// big.Int methods that read their receiver only / that read their arguments only.
var bigReadOnlyRecv = map[string]bool{"Cmp": true, "CmpAbs": true, "Sign": true, "BitLen": true, "Bit": true,
	"String": true, "Text": true, "Bytes": true, "Int64": true, "Uint64": true, "IsInt64": true, "IsUint64": true,
	"ProbablyPrime": true, "TrailingZeroBits": true}
var bigReadOnlyArgs = map[string]bool{"Set": true, "Cmp": true, "CmpAbs": true, "Mod": true, "ModInverse": true,
	"Add": true, "Sub": true, "Mul": true, "Exp": true, "Div": true, "Quo": true, "Rem": true, "ModSqrt": true,
	"And": true, "Or": true, "Xor": true, "AndNot": true}

type constCheck struct {
	p     *pkg
	gl    *glue
	elemG map[string]bool         // package-level Element literals
	bigG  map[string]bool         // package-level big.Int variables
	specs map[*ast.ValueSpec]bool // package-level var specs of the scanned files
	funcs map[string][]*ast.FuncDecl
	inits map[string]int // big global -> number of initialisations seen in init()
}

func (p *pkg) checkConstGlobals(gl *glue) {
	c := &constCheck{p: p, gl: gl, elemG: map[string]bool{}, bigG: map[string]bool{},
		specs: map[*ast.ValueSpec]bool{}, funcs: map[string][]*ast.FuncDecl{}, inits: map[string]int{}}
	for g := range p.globals {
		c.elemG[g] = true
	}
	if gl != nil {
		for g := range gl.cfg.bigGlobals {
			c.bigG[g] = true
		}
	}
	important := map[string]bool{"Element": true}
	for g := range c.elemG {
		important[g] = true
	}
	for g := range c.bigG {
		important[g] = true
	}
	for k := range p.done {
		important[k] = true
	}
	if gl != nil {
		for k := range gl.done {
			important[k] = true
		}
	}
	files := p.scanFiles(important)
	for _, f := range files {
		for _, d := range f.Decls {
			switch d := d.(type) {
			case *ast.FuncDecl:
				c.funcs[d.Name.Name] = append(c.funcs[d.Name.Name], d)
			case *ast.GenDecl:
				for _, s := range d.Specs {
					if vs, ok := s.(*ast.ValueSpec); ok {
						c.specs[vs] = true
					}
				}
			}
		}
	}
	// a translated function may have only ONE Go body in the package, whatever the
	// build constraints: limbgen reads the body in its three files (the portable
	// dispatch), and another architecture-specific Go body would not be seen
	bodies := map[string]int{}
	for _, fds := range c.funcs {
		for _, fd := range fds {
			if fd.Body != nil {
				bodies[funcKey(fd)]++
			}
		}
	}
	for k, n := range bodies {
		if n > 1 && important[k] && k != "Element" {
			fatalf("%s: the translated function %s has %d Go bodies in the package (build-constrained variants are not supported)", p.dir, k, n)
		}
	}
	for _, f := range files {
		for _, d := range f.Decls {
			fd, isFn := d.(*ast.FuncDecl)
			inInit := isFn && fd.Recv == nil && fd.Name.Name == "init"
			var stack []ast.Node
			ast.Inspect(d, func(n ast.Node) bool {
				if n == nil {
					stack = stack[:len(stack)-1]
					return true
				}
				if id, ok := n.(*ast.Ident); ok && c.isGlobalRef(id, stack) {
					c.use(id, stack, inInit)
				}
				stack = append(stack, n)
				return true
			})
		}
	}
}

// isGlobalRef: id denotes one of the constant globals (not a local of the same
// name, not a field / method name, not its own declaration).
func (c *constCheck) isGlobalRef(id *ast.Ident, stack []ast.Node) bool {
	if !c.elemG[id.Name] && !c.bigG[id.Name] {
		return false
	}
	if len(stack) > 0 {
		switch par := stack[len(stack)-1].(type) {
		case *ast.SelectorExpr:
			if par.Sel == id {
				return false
			}
		case *ast.ValueSpec:
			for _, n := range par.Names {
				if n == id && c.specs[par] {
					return false // the declaration itself
				}
			}
		}
	}
	if id.Obj == nil {
		return true // unresolved in this file: the package-level object of another file
	}
	vs, ok := id.Obj.Decl.(*ast.ValueSpec)
	return ok && c.specs[vs]
}

func (c *constCheck) bad(at ast.Node, g, why string) {
	c.p.failAt(at, "package-level %s is assumed constant: %s", g, why)
}

// climb returns the innermost non-parenthesis ancestor at or above index i.
func climb(stack []ast.Node, i int) (ast.Node, int) {
	for i >= 0 {
		if _, ok := stack[i].(*ast.ParenExpr); !ok {
			return stack[i], i
		}
		i--
	}
	return nil, -1
}

func (c *constCheck) use(id *ast.Ident, stack []ast.Node, inInit bool) {
	g := id.Name
	isBig := c.bigG[g]
	var cur ast.Node = id
	par, pi := climb(stack, len(stack)-1)
	if inInit {
		if isBig && c.initForm(id, par, stack, pi) {
			c.inits[g]++
			if c.inits[g] > 1 {
				c.bad(id, g, "initialised more than once in init()")
			}
			return
		}
		c.bad(id, g, "used in init() (only one `g.SetString(..)` / `g, _ = new(big.Int).SetString(..)` of a big.Int is accepted)")
	}
	// limb access g[i]
	if isIndexOf(par, cur) {
		if isBig {
			c.bad(id, g, "indexed")
		}
		cur = par
		par, pi = climb(stack, pi-1)
		switch q := par.(type) {
		case *ast.UnaryExpr:
			if q.Op == token.AND {
				c.bad(id, g, "address of a limb taken")
			}
		case *ast.AssignStmt:
			for _, l := range q.Lhs {
				if sameNode(l, cur) {
					c.bad(id, g, "limb assigned")
				}
			}
		case *ast.IncDecStmt:
			c.bad(id, g, "limb modified")
		case *ast.RangeStmt:
			if sameNode(q.Key, cur) || sameNode(q.Value, cur) {
				c.bad(id, g, "limb assigned by range")
			}
		}
		return
	}
	switch q := par.(type) {
	case *ast.SliceExpr:
		c.bad(id, g, "sliced (a slice of it is writable)")
	case *ast.AssignStmt:
		for _, l := range q.Lhs {
			if sameNode(l, cur) {
				c.bad(id, g, "assigned")
			}
		}
	case *ast.IncDecStmt:
		c.bad(id, g, "modified")
	case *ast.RangeStmt:
		if sameNode(q.Key, cur) || sameNode(q.Value, cur) {
			c.bad(id, g, "assigned by range")
		}
	case *ast.UnaryExpr:
		if q.Op == token.AND {
			call, _ := climb(stack, pi-1)
			if ce, ok := call.(*ast.CallExpr); ok && argIndex(ce, q) >= 0 {
				c.checkArg(id, ce, argIndex(ce, q), isBig)
				return
			}
			c.bad(id, g, "its address escapes (only `&g` as an argument of a translated / read-only call is accepted)")
		}
	case *ast.SelectorExpr: // g.M(..)
		call, _ := climb(stack, pi-1)
		ce, ok := call.(*ast.CallExpr)
		if !ok || !sameNode(ce.Fun, q) {
			c.bad(id, g, "selector that is not a method call")
		}
		c.checkRecv(id, q.Sel.Name, isBig)
		return
	case *ast.CallExpr:
		if i := argIndex(q, cur); i >= 0 && isBig {
			c.checkArg(id, q, i, true)
			return
		}
	}
	if isBig {
		c.bad(id, g, "a big.Int may only be used as `&g` / `g` argument of a read-only call or as receiver of a read-only method")
	}
	// Element: any other use copies the array value
}

func sameNode(a ast.Expr, b ast.Node) bool {
	if a == nil {
		return false
	}
	e, ok := b.(ast.Expr)
	return ok && unparen(a) == unparen(e)
}

func isIndexOf(par ast.Node, cur ast.Node) bool {
	ix, ok := par.(*ast.IndexExpr)
	return ok && sameNode(ix.X, cur)
}

func argIndex(ce *ast.CallExpr, n ast.Node) int {
	for i, a := range ce.Args {
		if sameNode(a, n) {
			return i
		}
	}
	return -1
}

// initForm: inside init(): g.SetString(..) as a statement, or
// g, _ = new(big.Int).SetString(..).
func (c *constCheck) initForm(id *ast.Ident, par ast.Node, stack []ast.Node, pi int) bool {
	switch q := par.(type) {
	case *ast.SelectorExpr:
		call, ci := climb(stack, pi-1)
		ce, ok := call.(*ast.CallExpr)
		if !ok || !sameNode(ce.Fun, q) || q.Sel.Name != "SetString" {
			return false
		}
		st, _ := climb(stack, ci-1)
		_, isStmt := st.(*ast.ExprStmt)
		return isStmt
	case *ast.AssignStmt:
		if q.Tok != token.ASSIGN || len(q.Lhs) != 2 || len(q.Rhs) != 1 || !sameNode(q.Lhs[0], id) || !isIdent(q.Lhs[1], "_") {
			return false
		}
		ce, ok := unparen(q.Rhs[0]).(*ast.CallExpr)
		if !ok {
			return false
		}
		sel, ok := ce.Fun.(*ast.SelectorExpr)
		if !ok || sel.Sel.Name != "SetString" {
			return false
		}
		nw, ok := unparen(sel.X).(*ast.CallExpr)
		return ok && isIdent(nw.Fun, "new") && len(nw.Args) == 1
	}
	return false
}

package main

import (
	"go/ast"
	"go/token"
	"strconv"
)

func (mt *mtrans) simple(s ast.Stmt) {
	switch s := s.(type) {
	case *ast.EmptyStmt:
	case *ast.DeclStmt:
		gd, ok := s.Decl.(*ast.GenDecl)
		if !ok || gd.Tok != token.VAR {
			mt.fail(s, "unsupported declaration")
		}
		for _, sp := range gd.Specs {
			mt.varSpec(sp.(*ast.ValueSpec))
		}
	case *ast.ExprStmt:
		call, ok := s.X.(*ast.CallExpr)
		if !ok {
			mt.fail(s, "unsupported expression statement")
		}
		mt.callStmt(mt.resolve(call), nil)
	case *ast.AssignStmt:
		mt.assign(s)
	default:
		mt.fail(s, "unsupported statement (%T)", s)
	}
}

func (mt *mtrans) zeroEl() string {
	var zs []string
	for j := 0; j < mt.p.nlimbs; j++ {
		zs = append(zs, "0")
	}
	return tupleOf(zs)
}

// varSpec: var a, b uint64 / var t [4]uint64 / var y Element / var u = Element{..}
func (mt *mtrans) varSpec(sp *ast.ValueSpec) {
	if len(sp.Values) != 0 {
		if len(sp.Names) != 1 || len(sp.Values) != 1 || (sp.Type != nil && !isIdent(sp.Type, "Element")) {
			mt.fail(sp, "unsupported var declaration with a value")
		}
		cl, ok := sp.Values[0].(*ast.CompositeLit)
		if !ok {
			mt.fail(sp, "unsupported var initializer")
		}
		term := mt.composite(cl)
		v := mt.newLocal(sp, sp.Names[0].Name)
		mt.storeWhole(v.name, term)
		return
	}
	for _, id := range sp.Names {
		switch t := sp.Type.(type) {
		case *ast.Ident:
			switch t.Name {
			case "Element":
				v := mt.newLocal(sp, id.Name)
				mt.storeWhole(v.name, mt.zeroEl())
				continue
			case "uint64", "bool":
				mt.declare(sp, &mvar{name: id.Name, kind: t.Name})
				mt.line("let " + id.Name + " := " + zeroOf(t.Name) + " in")
				continue
			}
		case *ast.ArrayType:
			if n, ok := mt.p.litU64(t.Len); ok && isIdent(t.Elt, "uint64") && atoi(n) >= 1 && atoi(n) <= 16 {
				mt.declare(sp, &mvar{name: id.Name, kind: "arr", n: atoi(n)})
				for j := 0; j < atoi(n); j++ {
					mt.line("let " + id.Name + strconv.Itoa(j) + " := 0 in")
				}
				continue
			}
		}
		mt.fail(sp, "var %s has an unsupported type", id.Name)
	}
}

func (mt *mtrans) assign(s *ast.AssignStmt) {
	if op, ok := opAssign[s.Tok]; ok { // x op= y
		if len(s.Lhs) != 1 || len(s.Rhs) != 1 {
			mt.fail(s, "unsupported assignment")
		}
		rhs := mt.exprU(&ast.BinaryExpr{X: s.Lhs[0], OpPos: s.TokPos, Op: op, Y: s.Rhs[0]})
		mt.assignScalar(s, s.Lhs[0], rhs, "uint64", false)
		return
	}
	if s.Tok != token.ASSIGN && s.Tok != token.DEFINE {
		mt.fail(s, "unsupported assignment operator %s", s.Tok)
	}
	def := s.Tok == token.DEFINE
	if len(s.Rhs) != 1 {
		mt.fail(s, "parallel assignment")
	}
	if len(s.Lhs) > 1 {
		mt.assignCall(s, def)
		return
	}
	lhs, rhs := unparen(s.Lhs[0]), s.Rhs[0]
	// whole-Element assignments: *z = .., v := *x, z := Element{..}, r = Element{}
	// (the right-hand side is evaluated first, then the object is overwritten)
	if term, ok := mt.wholeRhs(rhs); ok {
		obj := ""
		if st, isStar := lhs.(*ast.StarExpr); isStar && !def {
			if id, ok := unparen(st.X).(*ast.Ident); ok {
				if v := mt.lookup(id.Name); v != nil && v.kind == "ptr" {
					obj = v.name
				}
			}
		} else if id, isId := lhs.(*ast.Ident); isId && def {
			// the frame slot is allocated after the right-hand side was read
			mt.line("let r'w := " + term + " in")
			term = "r'w"
			obj = mt.newLocal(s, id.Name).name
		} else if isId {
			if v := mt.lookup(id.Name); v != nil && v.kind == "loc" {
				obj = v.name
			}
		}
		if obj == "" {
			mt.fail(s, "unsupported destination of a whole-Element assignment")
		}
		mt.storeWhole(obj, term)
		return
	}
	if mt.isBoolExpr(rhs) {
		mt.assignScalar(s, lhs, mt.exprB(rhs), "bool", def)
	} else {
		mt.assignScalar(s, lhs, mt.exprU(rhs), "uint64", def)
	}
}

// assignScalar: lhs is x[i] or a scalar variable; rhs is already translated.
func (mt *mtrans) assignScalar(s ast.Stmt, lhs ast.Expr, rhs, typ string, def bool) {
	lhs = unparen(lhs)
	if ix, ok := lhs.(*ast.IndexExpr); ok {
		if def || typ != "uint64" {
			mt.fail(s, "bad assignment to a limb")
		}
		obj, j, elem, global := mt.limbOf(ix)
		if global {
			mt.fail(s, "assignment to a package-level Element")
		}
		if elem {
			mt.storeLimb(obj, j, rhs)
		} else {
			mt.line("let " + obj + " := " + rhs + " in")
		}
		return
	}
	id, ok := lhs.(*ast.Ident)
	if !ok || id.Name == "_" {
		mt.fail(s, "unsupported assignment destination")
	}
	if def {
		mt.declare(s, &mvar{name: id.Name, kind: typ})
	} else if v := mt.lookup(id.Name); v == nil || v.kind != typ {
		mt.fail(s, "assignment to %s: unknown variable or type mismatch", id.Name)
	}
	mt.line("let " + id.Name + " := " + rhs + " in")
}

// assignCall: a, b = f(..).  Go evaluates the call, then assigns left to
// right: scalars and limbs of local arrays are bound by the let pattern
// (distinct names, order immaterial), limbs of Elements receive temporaries
// that are then stored in left-to-right order.
func (mt *mtrans) assignCall(s *ast.AssignStmt, def bool) {
	call, ok := unparen(s.Rhs[0]).(*ast.CallExpr)
	if !ok {
		mt.fail(s, "several destinations need a call on the right")
	}
	ci := mt.resolve(call)
	if ci.writes() || ci.recv != nil {
		mt.fail(s, "a call with *Element destinations cannot be assigned from")
	}
	rts := ci.resultTypes()
	if len(rts) != len(s.Lhs) {
		mt.fail(s, "%d destinations for %d results", len(s.Lhs), len(rts))
	}
	term := mt.callTerm(ci)
	type st struct {
		obj string
		j   int
		tmp string
	}
	var names []string
	var stores []st
	var fresh []*mvar
	used := map[string]bool{}
	for i, l := range s.Lhs {
		l = unparen(l)
		name := ""
		if ix, ok := l.(*ast.IndexExpr); ok {
			if def || rts[i] != "uint64" {
				mt.fail(s, "bad assignment to a limb")
			}
			obj, j, elem, global := mt.limbOf(ix)
			if global {
				mt.fail(s, "assignment to a package-level Element")
			}
			if elem {
				name = mt.tmp()
				stores = append(stores, st{obj, j, name})
			} else {
				name = obj
			}
		} else if id, ok := l.(*ast.Ident); ok && id.Name == "_" {
			names = append(names, "_")
			continue
		} else if ok {
			v := mt.lookup(id.Name)
			if def && v == nil {
				fresh = append(fresh, &mvar{name: id.Name, kind: rts[i]})
			} else if def || v == nil || v.kind != rts[i] {
				mt.fail(s, "assignment to %s: unknown variable, redeclaration or type mismatch", id.Name)
			}
			name = id.Name
		} else {
			mt.fail(s, "unsupported assignment destination")
		}
		if used[name] {
			mt.fail(s, "%s assigned twice in one statement", name)
		}
		used[name] = true
		names = append(names, name)
	}
	for _, v := range fresh {
		mt.declare(s, v)
	}
	mt.line(letPattern(names) + term + " in")
	for _, x := range stores {
		mt.storeLimb(x.obj, x.j, x.tmp)
	}
}

package main

// galias.go: the glue translator reads every variable as a VALUE.  A Go
// assignment that copies a pointer (`_z := z` for a *Element or *big.Int
// parameter, `p := &x`), a slice header (`res := a`, `b := buf[:]`) or a
// big.Int struct (which shares its digit slice) creates a second name for the
// SAME storage: writes through one name are visible through the other in Go,
// but not in the translation.  Such copies are rejected, and so are writes to
// the elements of a slice PARAMETER (the caller sees them; slices are not
// outputs of the generated definitions).

import (
	"go/ast"
	"go/token"
)

// checkNoAliasCopy: rhs is about to be bound to a variable (`:=`, `=`, `var x = rhs`).
func (g *gtrans) checkNoAliasCopy(e *genv, rhs ast.Expr) {
	switch x := unparen(rhs).(type) {
	case *ast.Ident:
		if v := e.lookup(x.Name); v != nil {
			switch {
			case v.ptr:
				g.fail(rhs, "copy of the pointer %s (the copy would alias *%s; unsupported)", v.name, v.name)
			case v.kind == kElems || v.kind == kBools || v.kind == kWords || (v.kind == kBytes && v.arrLen <= 0):
				g.fail(rhs, "copy of the slice %s (the copy would share its elements; unsupported)", v.name)
			case v.kind == kBig:
				g.fail(rhs, "copy of the big.Int %s (the copy would share its digits; unsupported)", v.name)
			}
		} else if _, isG := g.gl.cfg.bigGlobals[x.Name]; isG {
			g.fail(rhs, "copy of the package-level pointer %s (unsupported)", x.Name)
		}
	case *ast.UnaryExpr:
		if x.Op == token.AND {
			g.fail(rhs, "a variable that holds an address (unsupported)")
		}
	case *ast.SliceExpr:
		g.fail(rhs, "a variable that holds a slice of another variable (unsupported)")
	}
}

// checkNotParamSlice: an element of the slice v is about to be written.
func (g *gtrans) checkNotParamSlice(at ast.Node, v *gv) {
	if v.param && (v.kind == kElems || v.kind == kBools || v.kind == kBytes || v.kind == kWords) && v.arrLen <= 0 {
		g.fail(at, "write to an element of the slice parameter %s (visible to the caller, not an output of the translation)", v.name)
	}
}

package main

// galias.go: the glue translator reads every variable as a VALUE.  A Go
// assignment that copies a pointer (`_z := z` for a *Element or *big.Int
// parameter, `p := &x`), a slice header (`res := a`, `b := buf[:]`) or a
// big.Int struct (which shares its digit slice) creates a second name for the
// SAME storage: writes through one name are visible through the other in Go,
// but not in the translation.  Such copies are rejected, and so are writes to
// the elements of a slice PARAMETER (the caller sees them; slices are not
// outputs of the generated definitions).

import (
	"go/ast"
	"go/token"
)

// checkNoAliasCopy: rhs is about to be bound to a variable (`:=`, `=`, `var x = rhs`).
func (g *gtrans) checkNoAliasCopy(e *genv, rhs ast.Expr) {
	switch x := unparen(rhs).(type) {
	case *ast.Ident:
		if v := e.lookup(x.Name); v != nil {
			switch {
			case v.ptr:
				g.fail(rhs, "copy of the pointer %s (the copy would alias *%s; unsupported)", v.name, v.name)
			case v.kind == kElems || v.kind == kBools || v.kind == kWords || (v.kind == kBytes && v.arrLen <= 0):
				g.fail(rhs, "copy of the slice %s (the copy would share its elements; unsupported)", v.name)
			case v.kind == kBig:
				g.fail(rhs, "copy of the big.Int %s (the copy would share its digits; unsupported)", v.name)
			}
		} else if _, isG := g.gl.cfg.bigGlobals[x.Name]; isG {
			g.fail(rhs, "copy of the package-level pointer %s (unsupported)", x.Name)
		}
	case *ast.CallExpr:
		// w := vv.Mod(..) / w := z.Set(x): the pointer result IS the receiver (or a
		// parameter); v.Bits() shares v's storage: accepted only if v is never written
		if sel, ok := x.Fun.(*ast.SelectorExpr); ok && g.kindOf(e, sel.X) == kBig {
			switch sel.Sel.Name {
			case "Cmp", "BitLen", "Bit", "Sign":
			case "Bits":
				if id, ok := unparen(sel.X).(*ast.Ident); ok {
					if v := e.lookup(id.Name); v != nil {
						for _, w := range g.assignedOuter(g.fd.Body.List, e) {
							if w == v {
								g.fail(rhs, "%s.Bits() is kept in a variable while %s is written in this function (shared storage)", v.name, v.name)
							}
						}
						break
					}
				}
				g.fail(rhs, "Bits() of something that is not a variable kept in a variable (unsupported)")
			default:
				g.fail(rhs, "the pointer result of big.Int.%s kept in a variable (it aliases the receiver; unsupported)", sel.Sel.Name)
			}
		} else if k := g.kindOf(e, x); k == kElem || k == kBig {
			if s := g.calleeSummary(e, x); s != nil && s.retAlias != "" {
				g.fail(rhs, "the pointer result of %s kept in a variable (it aliases %s; unsupported)", s.key, s.retAlias)
			}
		}
	case *ast.UnaryExpr:
		if x.Op == token.AND {
			g.fail(rhs, "a variable that holds an address (unsupported)")
		}
	case *ast.SliceExpr:
		g.fail(rhs, "a variable that holds a slice of another variable (unsupported)")
	}
}

// calleeSummary: the summary of the repo function / Element method called by x (nil: none).
func (g *gtrans) calleeSummary(e *genv, x *ast.CallExpr) *gsum {
	switch f := x.Fun.(type) {
	case *ast.Ident:
		if e.lookup(f.Name) == nil {
			if _, ok := g.p.funcs[f.Name]; ok {
				return g.gl.summaryOf(f.Name, g, x)
			}
		}
	case *ast.SelectorExpr:
		if g.kindOf(e, f.X) == kElem {
			if _, ok := g.p.funcs["Element."+f.Sel.Name]; ok {
				return g.gl.summaryOf("Element."+f.Sel.Name, g, x)
			}
		}
	}
	return nil
}

// checkNotParamSlice: an element of the slice v is about to be written.
func (g *gtrans) checkNotParamSlice(at ast.Node, v *gv) {
	if v.param && (v.kind == kElems || v.kind == kBools || v.kind == kBytes || v.kind == kWords) && v.arrLen <= 0 {
		g.fail(at, "write to an element of the slice parameter %s (visible to the caller, not an output of the translation)", v.name)
	}
}

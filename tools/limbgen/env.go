package main

import (
	"fmt"
	"go/ast"
	"strings"
)

// gvar is one Go variable (parameter, named result, local).
type gvar struct {
	name     string
	typ      string // "uint64", "uint8", "bool", "elem" (Element / *Element), "arr" ([k]uint64)
	n        int    // number of limbs for elem / arr
	ptrParam bool   // *Element parameter (may alias another one)
	global   bool   // package-level constant Element
	depth    int
	seq      int // declaration order
}

func (v *gvar) isLimbs() bool { return v.typ == "elem" || v.typ == "arr" }

func (v *gvar) limb(j int) string { return fmt.Sprintf("%s%d", v.name, j) }

// coqNames: every Coq identifier this variable may be bound to.
func (v *gvar) coqNames() []string {
	if !v.isLimbs() {
		return []string{v.name}
	}
	ns := []string{v.name}
	for j := 0; j < v.n; j++ {
		ns = append(ns, v.limb(j))
	}
	return ns
}

// vstate is the flow-dependent state of a variable; cloned at forks.
type vstate struct {
	whole bool   // value available as the Coq variable <name>
	bound []bool // limb j available as the Coq variable <name>j
	init  []bool // limb j may still hold the value it had at function / fragment entry
	sinit bool   // scalar: same
	carry bool   // scalar: the current value is 0 or 1 (a carry / borrow, see carry.go)
}

func (s *vstate) clone() *vstate {
	return &vstate{whole: s.whole, sinit: s.sinit, carry: s.carry, bound: append([]bool(nil), s.bound...), init: append([]bool(nil), s.init...)}
}

type env struct {
	scopes  []map[string]*gvar
	st      map[*gvar]*vstate
	writers []map[*gvar]bool // limb j -> pointer parameters that may be its last writer
	ind     string
}

func newEnv(nlimbs int) *env {
	e := &env{st: map[*gvar]*vstate{}, ind: "  "}
	e.scopes = []map[string]*gvar{{}}
	for j := 0; j < nlimbs; j++ {
		e.writers = append(e.writers, map[*gvar]bool{})
	}
	return e
}

func (e *env) clone() *env {
	c := &env{st: map[*gvar]*vstate{}, ind: e.ind}
	for _, s := range e.scopes {
		m := map[string]*gvar{}
		for k, v := range s {
			m[k] = v
		}
		c.scopes = append(c.scopes, m)
	}
	for v, s := range e.st {
		c.st[v] = s.clone()
	}
	for _, w := range e.writers {
		m := map[*gvar]bool{}
		for k := range w {
			m[k] = true
		}
		c.writers = append(c.writers, m)
	}
	return c
}

func (e *env) indented() *env { c := e.clone(); c.ind = e.ind + "  "; return c }

func (e *env) push() { e.scopes = append(e.scopes, map[string]*gvar{}) }
func (e *env) pop() {
	for _, v := range e.scopes[len(e.scopes)-1] {
		delete(e.st, v)
	}
	e.scopes = e.scopes[:len(e.scopes)-1]
}

func (e *env) lookup(name string) *gvar {
	for i := len(e.scopes) - 1; i >= 0; i-- {
		if v, ok := e.scopes[i][name]; ok {
			return v
		}
	}
	return nil
}

var coqReserved = map[string]bool{}

func init() {
	for _, w := range strings.Fields(`as at cofix else end exists exists2 fix for forall fun if IF in let
		match mod return then using where with Prop Set Type SProp by
		el Z W bool true false negb andb orb nat list
		add64 sub64 mul64 wmul shr64 shl64 or64 and64 len64 u64 Words`) {
		coqReserved[w] = true
	}
}

// declare introduces a Go variable.  Rejected: shadowing of a live variable,
// two live variables that could be bound to the same Coq identifier, reserved
// identifiers, names of generated definitions.
func (ft *ftrans) declare(e *env, at ast.Node, v *gvar) {
	p := ft.p
	if v.name == "_" {
		p.failAt(at, "declaration of _")
	}
	if old := e.lookup(v.name); old != nil {
		p.failAt(at, "declaration of %s shadows a live variable (unsupported)", v.name)
	}
	if _, isG := p.globals[v.name]; isG {
		p.failAt(at, "local %s shadows a package-level Element", v.name)
	}
	for _, cn := range v.coqNames() {
		if coqReserved[cn] || strings.Contains(cn, "'") {
			p.failAt(at, "variable %s: Coq identifier %s is reserved", v.name, cn)
		}
		if _, isF := p.coqUsed[cn]; isF {
			p.failAt(at, "variable %s: Coq identifier %s is a generated definition", v.name, cn)
		}
		for _, sc := range e.scopes {
			for _, u := range sc {
				for _, un := range u.coqNames() {
					if un == cn {
						p.failAt(at, "variables %s and %s would both use the Coq identifier %s", u.name, v.name, cn)
					}
				}
			}
		}
	}
	v.depth = len(e.scopes)
	ft.nseq++
	v.seq = ft.nseq
	e.scopes[len(e.scopes)-1][v.name] = v
	s := &vstate{}
	if v.isLimbs() {
		s.bound = make([]bool, v.n)
		s.init = make([]bool, v.n)
	}
	e.st[v] = s
}

// tuple renders the value of a limb variable from its limbs.
func tupleOf(names []string) string {
	if len(names) == 1 {
		return names[0]
	}
	return "(" + strings.Join(names, ", ") + ")"
}

func (v *gvar) limbNames() []string {
	var ns []string
	for j := 0; j < v.n; j++ {
		ns = append(ns, v.limb(j))
	}
	return ns
}

// letPattern renders "let <pattern> := " for one or several names.
func letPattern(names []string) string {
	if len(names) == 1 {
		return "let " + names[0] + " := "
	}
	return "let '(" + strings.Join(names, ", ") + ") := "
}

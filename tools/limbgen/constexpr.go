package main

// constexpr.go: constant expressions.  Go evaluates an expression made of
// untyped integer literals EXACTLY (arbitrary precision), whereas the
// translation renders its operators as 64-bit word operations.  The two agree
// iff every intermediate value is a uint64, which is checked here; otherwise
// the translator stops.  (`k := <constant>` declares an int in Go, see assign.)

import (
	"go/ast"
	"go/constant"
	"go/token"
)

// constVal: x is built from integer literals, parentheses and the binary
// operators + - * << >> | & only; v is its exact value; inRange: x and all its
// subexpressions have values in 0 .. 2^64-1.
func constVal(x ast.Expr) (v constant.Value, isConst, inRange bool) {
	x = unparen(x)
	fits := func(c constant.Value) bool {
		_, exact := constant.Uint64Val(c)
		return c.Kind() == constant.Int && constant.Sign(c) >= 0 && exact
	}
	switch x := x.(type) {
	case *ast.BasicLit:
		if x.Kind != token.INT {
			return nil, false, false
		}
		c := constant.MakeFromLiteral(x.Value, token.INT, 0)
		return c, c.Kind() == constant.Int, fits(c)
	case *ast.BinaryExpr:
		a, ca, ra := constVal(x.X)
		b, cb, rb := constVal(x.Y)
		if !ca || !cb {
			return nil, false, false
		}
		switch x.Op {
		case token.ADD, token.SUB, token.MUL, token.OR, token.AND:
			c := constant.BinaryOp(a, x.Op, b)
			return c, true, ra && rb && fits(c)
		case token.SHL, token.SHR:
			n, ok := constant.Uint64Val(b)
			if !ok || n > 63 {
				return nil, true, false
			}
			c := constant.Shift(a, x.Op, uint(n))
			return c, true, ra && rb && fits(c)
		}
		return nil, true, false // constant, but an operator that is not modelled
	}
	return nil, false, false
}

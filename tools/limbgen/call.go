package main

import (
	"go/ast"
	"go/token"
)

var bitsBuiltins = map[string]struct {
	coq   string
	nargs int
}{
	"Add64": {"add64", 3}, "Sub64": {"sub64", 3}, "Mul64": {"mul64", 2},
}

// callInfo is a resolved call: who is called and which caller variables are
// bound to the callee's pointer parameters.
type callInfo struct {
	node     *ast.CallExpr
	builtin  string // add64 / sub64 / mul64
	coqFun   string // name to emit (generated definition or extern)
	sum      *summary
	ptrArgs  map[string]*gvar
	args     []ast.Expr // all arguments, callee parameter order (receiver first; nil for a chained receiver)
	recvCall *callInfo  // receiver is itself a call, executed first
}

func (ci *callInfo) resultTypes() []string {
	if ci.builtin != "" {
		return []string{"uint64", "uint64"}
	}
	return ci.sum.results
}

// retVar: the caller variable a *Element result points to.
func (ci *callInfo) retVar() *gvar {
	if ci.sum == nil || ci.sum.retAlias == "" {
		return nil
	}
	return ci.ptrArgs[ci.sum.retAlias]
}

// elemArg: an argument for a *Element parameter: p (pointer parameter),
// &local, &global, or local used as a method receiver.
func (ft *ftrans) elemArg(e *env, x ast.Expr, isRecv bool) *gvar {
	p := ft.p
	x = unparen(x)
	addr := false
	if u, ok := x.(*ast.UnaryExpr); ok && u.Op == token.AND {
		addr = true
		x = unparen(u.X)
	}
	id, ok := x.(*ast.Ident)
	if !ok {
		p.failAt(x, "%s: unsupported *Element argument (%T)", ft.sum.key, x)
	}
	v := e.lookup(id.Name)
	if v == nil {
		if _, isG := p.globals[id.Name]; isG && addr {
			return &gvar{name: id.Name, typ: "elem", n: p.nlimbs, global: true}
		}
		p.failAt(x, "%s: unknown variable %s", ft.sum.key, id.Name)
	}
	if v.typ != "elem" {
		p.failAt(x, "%s: %s is not an Element", ft.sum.key, id.Name)
	}
	// pointer parameter: passed as is; local Element: &local, or receiver (auto-address)
	if v.ptrParam == addr && !(isRecv && !v.ptrParam) {
		p.failAt(x, "%s: argument %s: expected a pointer parameter or &local", ft.sum.key, id.Name)
	}
	return v
}

func (ft *ftrans) resolveCall(e *env, call *ast.CallExpr) *callInfo {
	p := ft.p
	ci := &callInfo{node: call, ptrArgs: map[string]*gvar{}}
	var key string
	var recv ast.Expr
	switch f := call.Fun.(type) {
	case *ast.SelectorExpr:
		if isIdent(f.X, "bits") && e.lookup("bits") == nil {
			b, ok := bitsBuiltins[f.Sel.Name]
			if !ok || len(call.Args) != b.nargs {
				p.failAt(call, "%s: unsupported call bits.%s", ft.sum.key, f.Sel.Name)
			}
			ci.builtin, ci.coqFun, ci.args = b.coq, b.coq, call.Args
			return ci
		}
		key, recv = "Element."+f.Sel.Name, unparen(f.X)
	case *ast.Ident:
		if e.lookup(f.Name) != nil {
			p.failAt(call, "%s: call of a variable", ft.sum.key)
		}
		key = f.Name
	default:
		p.failAt(call, "%s: unsupported callee (%T)", ft.sum.key, call.Fun)
	}
	ci.sum = p.translate(key, call)
	if ci.sum.fragmented {
		p.failAt(call, "%s: call of %s, which contains a loop (unsupported)", ft.sum.key, key)
	}
	ci.coqFun = ci.sum.coqName
	if ext, ok := p.cfg.externs[key]; ok {
		ci.coqFun = ext
	}
	nparams := len(ci.sum.params)
	args := call.Args
	if recv != nil {
		if rc, ok := recv.(*ast.CallExpr); ok {
			ci.recvCall = ft.resolveCall(e, rc)
			rv := ci.recvCall.retVar()
			if rv == nil {
				p.failAt(rc, "%s: method called on the result of a call that does not return one of its *Element arguments", ft.sum.key)
			}
			ci.ptrArgs[ci.sum.params[0].name] = rv
			args = append([]ast.Expr{nil}, args...)
		} else {
			args = append([]ast.Expr{recv}, args...)
		}
	}
	if len(args) != nparams {
		p.failAt(call, "%s: call of %s with %d arguments, %d expected", ft.sum.key, key, len(args), nparams)
	}
	ci.args = args
	for i, pa := range ci.sum.params {
		if pa.typ == "elem" && args[i] != nil {
			ci.ptrArgs[pa.name] = ft.elemArg(e, args[i], recv != nil && i == 0)
		}
	}
	// outputs must be distinct, writable variables
	seen := map[*gvar]bool{}
	for _, pa := range ci.sum.params {
		if pa.typ != "elem" || !ci.sum.isOut[pa.name] {
			continue
		}
		v := ci.ptrArgs[pa.name]
		if v.global {
			p.failAt(call, "%s: package-level Element %s passed to %s as a destination", ft.sum.key, v.name, key)
		}
		if seen[v] {
			p.failAt(call, "%s: %s passed to %s for two destinations", ft.sum.key, v.name, key)
		}
		seen[v] = true
	}
	// distinctness assumed by the callee must hold here
	for _, pr := range ci.sum.noalias {
		a, b := ci.ptrArgs[pr[0]], ci.ptrArgs[pr[1]]
		if a == b || (a.ptrParam && b.ptrParam && !ft.sum.assumesDistinct(a.name, b.name)) {
			p.failAt(call, "%s: %s assumes distinct pointers %s, %s; not guaranteed here", ft.sum.key, key, pr[0], pr[1])
		}
	}
	return ci
}

// callTerm emits what must precede the call (receiver chain, destructurings)
// and returns the Coq application.  Reads of the in-arguments are noted.
func (ft *ftrans) callTerm(e *env, ci *callInfo) string {
	p := ft.p
	if ci.recvCall != nil {
		ft.callStmt(e, ci.recvCall, nil)
	}
	if ci.builtin != "" {
		if (ci.builtin == "add64" || ci.builtin == "sub64") && !ft.carryArgOK(e, ci.args[2]) {
			p.failAt(ci.node, "%s: the carry / borrow argument must be 0, 1 or a variable holding a carry (see carry.go)", ft.sum.key)
		}
		var as []string
		for _, a := range ci.args {
			as = append(as, ft.exprU(e, a))
		}
		return app(ci.coqFun, as...)
	}
	var as []string
	for i, pa := range ci.sum.params {
		switch pa.typ {
		case "elem":
			if ci.sum.isIn[pa.name] {
				as = append(as, ft.readWhole(e, ci.node, ci.ptrArgs[pa.name]))
			}
		case "uint64":
			as = append(as, ft.exprU(e, ci.args[i]))
		case "bool":
			as = append(as, ft.exprB(e, ci.args[i]))
		case "uint8":
			a := unparen(ci.args[i])
			if lit, ok := p.litU64(a); ok && atoi(lit) <= 255 {
				as = append(as, lit)
			} else if id, ok := a.(*ast.Ident); ok && e.lookup(id.Name) != nil && e.lookup(id.Name).typ == "uint8" {
				ft.noteScalarRead(e, e.lookup(id.Name))
				as = append(as, id.Name)
			} else {
				p.failAt(ci.node, "%s: unsupported uint8 argument", ft.sum.key)
			}
		}
	}
	return app(ci.coqFun, as...)
}

// outVars: caller variables re-bound by the call, callee parameter order.
func (ci *callInfo) outVars() []*gvar {
	var vs []*gvar
	if ci.sum == nil {
		return nil
	}
	for _, pa := range ci.sum.params {
		if pa.typ == "elem" && ci.sum.isOut[pa.name] {
			vs = append(vs, ci.ptrArgs[pa.name])
		}
	}
	return vs
}

// callStmt emits "let <outs, scalar results> := f args in".  scalarNames are
// the Coq names receiving the scalar results (nil: discarded).
func (ft *ftrans) callStmt(e *env, ci *callInfo, scalarNames []string) {
	term := ft.callTerm(e, ci)
	outs := ci.outVars()
	var names []string
	for _, v := range outs {
		names = append(names, v.name)
	}
	rts := ci.resultTypes()
	if scalarNames == nil {
		for range rts {
			names = append(names, "_")
		}
		if len(outs) == 0 {
			ft.p.failAt(ci.node, "%s: call statement without any effect", ft.sum.key)
		}
	} else {
		if len(scalarNames) != len(rts) {
			ft.p.failAt(ci.node, "%s: %d values assigned from a call with %d results", ft.sum.key, len(scalarNames), len(rts))
		}
		names = append(names, scalarNames...)
	}
	ft.line(e, letPattern(names)+term+" in")
	for _, v := range outs {
		ft.afterWriteWhole(e, ci.node, v)
	}
}

// pureCall: a call inside an expression: no destination, one scalar result.
func (ft *ftrans) pureCall(e *env, ci *callInfo, want string) string {
	rts := ci.resultTypes()
	if ci.builtin != "" || len(ci.outVars()) != 0 || ci.recvCall != nil || len(rts) != 1 || rts[0] != want {
		ft.p.failAt(ci.node, "%s: this call cannot be used as a %s expression", ft.sum.key, want)
	}
	return ft.callTerm(e, ci)
}

package main

import (
	"go/ast"
	"go/token"
)

// target: a scalar variable (j < 0) or limb j of a limb variable.
type target struct {
	v *gvar
	j int
}

func alwaysReturns(list []ast.Stmt) bool {
	if len(list) == 0 {
		return false
	}
	switch s := list[len(list)-1].(type) {
	case *ast.ReturnStmt:
		return true
	case *ast.BlockStmt:
		return alwaysReturns(s.List)
	case *ast.IfStmt:
		B, hasElse := elseList(s)
		return hasElse && alwaysReturns(s.Body.List) && alwaysReturns(B)
	}
	return false
}

func containsReturn(list []ast.Stmt) bool {
	found := false
	for _, s := range list {
		ast.Inspect(s, func(n ast.Node) bool {
			if _, ok := n.(*ast.ReturnStmt); ok {
				found = true
			}
			return true
		})
	}
	return found
}

// assignedIn lists, in order of first assignment, the variables of the
// environment e (i.e. declared OUTSIDE the scanned statements) that the
// statements may assign.  Names not found in e are local to the statements
// (shadowing is rejected elsewhere).
func (ft *ftrans) assignedIn(list []ast.Stmt, e *env) []target {
	var out []target
	seen := map[target]bool{}
	add := func(v *gvar, j int) {
		if v == nil {
			return
		}
		t := target{v, j}
		if !seen[t] {
			seen[t] = true
			out = append(out, t)
		}
	}
	addAll := func(v *gvar) {
		if v != nil && v.isLimbs() {
			for j := 0; j < v.n; j++ {
				add(v, j)
			}
		}
	}
	lookupRoot := func(x ast.Expr) *gvar {
		x = unparen(x)
		if u, ok := x.(*ast.UnaryExpr); ok && u.Op == token.AND {
			x = unparen(u.X)
		}
		if st, ok := x.(*ast.StarExpr); ok {
			x = unparen(st.X)
		}
		if id, ok := x.(*ast.Ident); ok {
			return e.lookup(id.Name)
		}
		return nil
	}
	var callOuts func(call *ast.CallExpr) *gvar
	// callOuts records the destinations of a call and returns the variable
	// its *Element result points to (nil if none / local).
	callOuts = func(call *ast.CallExpr) *gvar {
		var key string
		var args []ast.Expr
		var recvVar *gvar
		chained := false
		switch f := call.Fun.(type) {
		case *ast.SelectorExpr:
			if isIdent(f.X, "bits") {
				return nil
			}
			key = "Element." + f.Sel.Name
			if rc, ok := unparen(f.X).(*ast.CallExpr); ok {
				recvVar, chained = callOuts(rc), true
				args = append([]ast.Expr{nil}, call.Args...)
			} else {
				args = append([]ast.Expr{f.X}, call.Args...)
			}
		case *ast.Ident:
			if f.Name == "uint64" {
				return nil
			}
			key = f.Name
			args = call.Args
		default:
			ft.p.failAt(call, "%s: unsupported callee (%T)", ft.sum.key, call.Fun)
		}
		sum := ft.p.translate(key, call)
		var ret *gvar
		for i, pa := range sum.params {
			if pa.typ != "elem" || i >= len(args) {
				continue
			}
			v := recvVar
			if !(chained && i == 0) {
				v = lookupRoot(args[i])
			}
			if sum.isOut[pa.name] {
				addAll(v)
			}
			if sum.retAlias == pa.name {
				ret = v
			}
		}
		return ret
	}
	var walk func(list []ast.Stmt)
	walk = func(list []ast.Stmt) {
		for _, s := range list {
			switch s := s.(type) {
			case *ast.AssignStmt:
				for _, l := range s.Lhs {
					l = unparen(l)
					switch x := l.(type) {
					case *ast.IndexExpr:
						v := lookupRoot(x.X)
						if lit, ok := ft.p.litU64(x.Index); ok && v != nil && v.isLimbs() && atoi(lit) < v.n {
							add(v, atoi(lit))
						} else if v != nil {
							ft.p.failAt(x, "%s: unsupported assignment destination", ft.sum.key)
						}
					case *ast.StarExpr:
						addAll(lookupRoot(x))
					case *ast.Ident:
						if v := e.lookup(x.Name); v != nil {
							if v.isLimbs() {
								addAll(v)
							} else {
								add(v, -1)
							}
						}
					}
				}
			case *ast.ExprStmt:
				if call, ok := s.X.(*ast.CallExpr); ok {
					callOuts(call)
				}
			case *ast.ReturnStmt:
				for _, r := range s.Results {
					if call, ok := unparen(r).(*ast.CallExpr); ok {
						callOuts(call)
					}
				}
			case *ast.BlockStmt:
				walk(s.List)
			case *ast.ForStmt:
				walk(s.Body.List)
			case *ast.IfStmt:
				walk(s.Body.List)
				B, _ := elseList(s)
				walk(B)
			case *ast.SwitchStmt:
				for _, c := range s.Body.List {
					walk(c.(*ast.CaseClause).Body)
				}
			}
		}
	}
	walk(list)
	return out
}

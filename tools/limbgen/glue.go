package main

// Glue translator: the element-level functions WITH LOOPS AND CALLS (Exp,
// Legendre, Sqrt, Inverse, Div, BatchInvert, big.Int / byte conversions, Cmp,
// ...) -> Gen/FfGlue.v, Gen/FfgGlue.v.  See README.md, section "Glue".
//
// It runs after the limb-level translation of the same package (ftrans,
// FfRoutines.v) and refers to those definitions by qualified name.  Values are
// WHOLE: an Element variable is one Coq variable of type el, x[j] is a
// projection.  A function that cannot be translated gets a marker definition
// <name>__TRANSLATION_FAILED (and so does every caller); the run goes on and
// limbgen exits with status 3.

import (
	"fmt"
	"go/ast"
	"go/token"
	"os"
	"sort"
	"strings"
)

type glueConfig struct {
	module, base, consts string
	roots                []string
	bigGlobals           map[string]string // package-level big.Int (pointer) variables -> Coq constant
}

var glueConfigs = map[string]*glueConfig{
	"ff": {
		module: "FfGlue", base: "FfRoutines", consts: "FfConsts",
		roots: []string{
			"One", "Element.Exp", "Element.Legendre", "Element.Sqrt",
			"Element.Inverse", "Element.Div", "BatchInvert",
			"Element.setBigInt", "Element.SetBigInt", "Element.ToBigInt", "Element.ToRegular",
			"Element.ToBigIntRegular", "Element.SetBytes", "Element.Bytes", "Element.Marshal",
			"Element.IsUint64", "Element.Cmp", "Element.LexicographicallyLargest",
			"NewElementFromUint64", "Element.BitLen",
		},
		bigGlobals: map[string]string{
			"_modulus": "FfConsts.modulus", "_bLegendreExponentElement": "FfConsts.legendreExp",
			"_bSqrtExponentElement": "FfConsts.sqrtExp",
		},
	},
	"ffg": {
		module: "FfgGlue", base: "FfgRoutines", consts: "FfgConsts",
		roots: []string{
			"One", "Element.Exp", "Element.Legendre", "Element.Sqrt",
			"Modulus", "Element.setBigInt", "Element.SetBigInt", "Element.ToBigInt", "Element.ToRegular",
			"Element.ToBigIntRegular", "Element.Inverse", "Element.Div", "Element.Halve", "BatchInvert",
			"Element.SetBytes", "Element.Bytes", "Element.Marshal", "Element.ToUint64Regular",
			"Element.IsUint64", "Element.Cmp", "Element.LexicographicallyLargest", "Element.BitLen",
		},
		bigGlobals: map[string]string{
			"_modulus": "FfgConsts.modulus", "_bLegendreExponentElement": "FfgConsts.legendreExp",
			"_bSqrtExponentElement": "FfgConsts.sqrtExp",
		},
	},
}

// transErr: a glue function cannot be translated (raised by gtrans.fail and,
// while glueMode is on, by fatalf / pkg.failAt).
type transErr struct{ msg string }

// restart: the current pass has to be redone (the function turned out to need fuel).
type restart struct{}

var glueMode bool

type gparam struct {
	name         string
	kind         gkind
	ptr, in, out bool
}

// gsum: what callers need to know about a function.
type gsum struct {
	key, coqName, qual string
	params             []gparam
	results            []gkind // results that are values (not aliases of a parameter)
	retAlias           string  // the pointer result is this parameter
	nilable            bool    // may return nil: the result is an option
	fuels              []string
	noalias            [][2]string
	failed             bool
	text               string
}

type glue struct {
	p       *pkg
	cfg     *glueConfig
	done    map[string]*gsum
	order   []string
	coqUsed map[string]string
	inprog  map[string]bool
	consts  map[string]int
	nfail   int
}

func newGlue(p *pkg, cfg *glueConfig) *glue {
	gl := &glue{p: p, cfg: cfg, done: map[string]*gsum{}, coqUsed: map[string]string{},
		inprog: map[string]bool{}, consts: map[string]int{}}
	gl.loadConsts()
	gl.checkBigGlobals()
	return gl
}

// loadConsts: package-level `const Name = <int expr>`.
func (gl *glue) loadConsts() {
	for _, f := range gl.p.files {
		for _, d := range f.Decls {
			gd, ok := d.(*ast.GenDecl)
			if !ok || gd.Tok != token.CONST {
				continue
			}
			for _, s := range gd.Specs {
				vs := s.(*ast.ValueSpec)
				if len(vs.Names) != 1 || len(vs.Values) != 1 {
					continue
				}
				if n, ok := gl.constInt(vs.Values[0]); ok {
					gl.consts[vs.Names[0].Name] = n
				}
			}
		}
	}
}

func (gl *glue) constInt(x ast.Expr) (int, bool) {
	x = unparen(x)
	switch x := x.(type) {
	case *ast.BasicLit:
		if x.Kind == token.INT {
			if n := atoi(x.Value); n >= 0 {
				return n, true
			}
		}
	case *ast.Ident:
		n, ok := gl.consts[x.Name]
		return n, ok
	case *ast.BinaryExpr:
		a, ok1 := gl.constInt(x.X)
		b, ok2 := gl.constInt(x.Y)
		if ok1 && ok2 {
			switch x.Op {
			case token.MUL:
				return a * b, true
			case token.ADD:
				return a + b, true
			case token.SUB:
				return a - b, true
			}
		}
	}
	return 0, false
}

var bigMutators = map[string]bool{"Set": true, "SetBytes": true, "SetString": true, "Mod": true, "ModInverse": true,
	"Add": true, "Sub": true, "Mul": true, "SetUint64": true, "SetInt64": true, "Exp": true, "Neg": true,
	"Lsh": true, "Rsh": true, "Div": true, "Quo": true, "Rem": true, "Sqrt": true, "ModSqrt": true}

// checkBigGlobals: the package-level big.Int variables that are read as
// constants are written in init() only.
func (gl *glue) checkBigGlobals() {
	root := func(e ast.Expr) string {
		for {
			switch x := e.(type) {
			case *ast.ParenExpr:
				e = x.X
			case *ast.StarExpr:
				e = x.X
			case *ast.UnaryExpr:
				e = x.X
			case *ast.Ident:
				return x.Name
			default:
				return ""
			}
		}
	}
	for _, f := range gl.p.files {
		for _, d := range f.Decls {
			fd, ok := d.(*ast.FuncDecl)
			if !ok || fd.Body == nil || (fd.Recv == nil && fd.Name.Name == "init") {
				continue
			}
			ast.Inspect(fd.Body, func(n ast.Node) bool {
				switch s := n.(type) {
				case *ast.AssignStmt:
					for _, l := range s.Lhs {
						if _, isG := gl.cfg.bigGlobals[root(l)]; isG && !locallyDeclared(f, s, root(l)) {
							fatalf("%s: assignment to package-level %s (assumed constant)", gl.p.pos(s), root(l))
						}
					}
				case *ast.CallExpr:
					if sel, ok := s.Fun.(*ast.SelectorExpr); ok && bigMutators[sel.Sel.Name] {
						if _, isG := gl.cfg.bigGlobals[root(sel.X)]; isG {
							fatalf("%s: package-level %s modified outside init (assumed constant)", gl.p.pos(s), root(sel.X))
						}
					}
				}
				return true
			})
		}
	}
}

// summaryOf: the summary of function `key` as seen from glue code.
func (gl *glue) summaryOf(key string, from *gtrans, at ast.Node) *gsum {
	s, ok := gl.done[key]
	if !ok {
		if bs, isBase := gl.p.done[key]; isBase && !bs.fragmented {
			s = gl.fromBase(bs)
			gl.done[key] = s
		} else {
			s = gl.translate(key, from, at)
		}
	}
	if s.failed && from != nil {
		from.fail(at, "call of %s, which could not be translated", key)
	}
	return s
}

// fromBase converts the summary of a limb-level function (FfRoutines.v).
func (gl *glue) fromBase(bs *summary) *gsum {
	s := &gsum{key: bs.key, coqName: bs.coqName, qual: gl.cfg.base + ".", retAlias: bs.retAlias, noalias: bs.noalias}
	if ext, ok := gl.p.cfg.externs[bs.key]; ok {
		s.coqName, s.qual = ext, ""
	}
	for _, pa := range bs.params {
		gp := gparam{name: pa.name}
		switch pa.typ {
		case "elem":
			gp.kind, gp.ptr, gp.in, gp.out = kElem, true, bs.isIn[pa.name], bs.isOut[pa.name]
		case "bool":
			gp.kind, gp.in = kBool, true
		default:
			gp.kind, gp.in = kU64, true
		}
		s.params = append(s.params, gp)
	}
	for _, r := range bs.results {
		if r == "bool" {
			s.results = append(s.results, kBool)
		} else {
			s.results = append(s.results, kU64)
		}
	}
	return s
}

func (gl *glue) translate(key string, from *gtrans, at ast.Node) (sm *gsum) {
	fd, ok := gl.p.funcs[key]
	if from != nil && (!ok || fd.Body == nil) {
		from.fail(at, "call of %s: no such function in %v (or it has no Go body)", key, gl.p.cfg.files)
	}
	if from != nil && gl.inprog[key] {
		from.fail(at, "recursive call of %s (unsupported)", key)
	}
	name := coqNameOf(key)
	defer func() {
		r := recover()
		if r == nil {
			return
		}
		te, isTe := r.(transErr)
		if !isTe {
			panic(r)
		}
		fmt.Fprintln(os.Stderr, "limbgen: ERROR: "+te.msg)
		sm = &gsum{key: key, coqName: name, failed: true,
			text: "(* " + gl.p.cfg.pkgDir + " " + key + ": TRANSLATION FAILED (see the messages of limbgen); the definition\n   " +
				name + " is deliberately missing, so that only its equality lemma breaks. *)\n" +
				"Definition " + name + "__TRANSLATION_FAILED : unit := tt.\n"}
		delete(gl.inprog, key)
		gl.p.inprog = map[string]bool{}
		gl.done[key] = sm
		gl.order = append(gl.order, key)
		gl.nfail++
	}()
	if !ok || fd.Body == nil {
		panic(transErr{"glue root " + key + " not found in " + gl.p.cfg.pkgDir + " (or it has no Go body)"})
	}
	gl.inprog[key] = true
	if other, dup := gl.coqUsed[name]; dup {
		panic(transErr{gl.p.pos(fd) + ": Coq name " + name + " of " + key + " already used by " + other})
	}
	if _, isBase := gl.p.done[key]; isBase {
		// the fragments are <name>_pre ..; <name> itself is free in the base file
	} else if _, dup := gl.p.coqUsed[name]; dup || coqReserved[name] || glueReserved[name] {
		panic(transErr{gl.p.pos(fd) + ": Coq name " + name + " of " + key + " is reserved or used in " + gl.cfg.base})
	}
	if bs, isBase := gl.p.done[key]; isBase { // fragmented limb-level function: generate its loops
		sm = gl.fragGlue(bs)
	} else {
		fuelled := false
		for {
			g := newGtrans(gl, key, fd, fuelled)
			if g.run() {
				sm = g.sum
				break
			}
			fuelled = true
		}
	}
	delete(gl.inprog, key)
	gl.done[key] = sm
	gl.coqUsed[name] = key
	gl.order = append(gl.order, key)
	return sm
}

func (gl *glue) emitFile() string {
	p := gl.p
	var b strings.Builder
	fmt.Fprintf(&b, "(* GENERATED by tools/limbgen (glue translator) from /repo/%s/element.go on every run.  DO NOT EDIT.\n", p.cfg.pkgDir)
	b.WriteString(`   The element-level functions with loops and calls.  The translation scheme
   and its assumptions are documented in tools/limbgen/README.md (section
   "Glue") and at the top of tools/limbgen/glue.go.  In short: an Element is ONE
   value of type el (x[j] is a projection), a big.Int is a Z; calls refer to the
   limb-level definitions of Gen/` + gl.cfg.base + `.v; a counted loop is a fixpoint on its
   iteration count, an unbounded loop a fixpoint on an explicit fuel argument
   with result OutOfFuel when exhausted (type fuelled of Lib/GoGlue.v); int
   arithmetic is assumed not to overflow, uint64 arithmetic wraps.
   Proofs/` + gl.cfg.module + `Eq.v proves each definition equal to the hand-written model. *)
From Coq Require Import ZArith List Bool.
From Verif Require Import Lib.Params Lib.Words Lib.Octets Lib.GoGlue.
`)
	fmt.Fprintf(&b, "From Verif Require Gen.%s Gen.%s.\nImport ListNotations.\nLocal Open Scope Z_scope.\n\n", gl.cfg.consts, gl.cfg.base)
	fmt.Fprintf(&b, "Notation el := %s.el.\n\n", gl.cfg.base)
	b.WriteString(gl.preamble())
	for _, key := range gl.order {
		b.WriteString(gl.done[key].text)
		b.WriteString("\n")
	}
	return b.String()
}

// preamble: zero Element, x[i] and x[i] = v with a variable index.
func (gl *glue) preamble() string {
	n := gl.p.nlimbs
	var b strings.Builder
	if n == 1 {
		b.WriteString("(* the zero value of type Element; x[i] and x[i] = v with a VARIABLE index\n" +
			"   (an index out of range panics in Go; here: 0 / no effect) *)\n" +
			"Definition el_zero : el := 0.\n" +
			"Definition limb_get (x : el) (i : Z) : Z := if Z.eqb i 0 then x else 0.\n" +
			"Definition limb_set (x : el) (i : Z) (v : Z) : el := if Z.eqb i 0 then v else x.\n\n")
		return b.String()
	}
	var zs, xs []string
	for j := 0; j < n; j++ {
		zs = append(zs, "0")
		xs = append(xs, "x"+itoa(j))
	}
	b.WriteString("(* the zero value of type Element; x[i] and x[i] = v with a VARIABLE index\n" +
		"   (an index out of range panics in Go; here: 0 / no effect) *)\n")
	b.WriteString("Definition el_zero : el := " + tupleOf(zs) + ".\n")
	b.WriteString("Definition limb_get (x : el) (i : Z) : Z :=\n  let '" + tupleOf(xs) + " := x in\n ")
	for j := 0; j < n; j++ {
		b.WriteString(" if Z.eqb i " + itoa(j) + " then " + xs[j] + " else")
	}
	b.WriteString(" 0.\n")
	b.WriteString("Definition limb_set (x : el) (i : Z) (v : Z) : el :=\n  let '" + tupleOf(xs) + " := x in\n")
	for j := 0; j < n; j++ {
		ys := append([]string{}, xs...)
		ys[j] = "v"
		b.WriteString("  if Z.eqb i " + itoa(j) + " then " + tupleOf(ys) + " else\n")
	}
	b.WriteString("  x.\n\n")
	return b.String()
}

// runGlue translates the glue roots of package p; returns the translator (nil:
// the package has no glue part), the text of the generated file and the number
// of functions that could not be translated.  Nothing is written here.
func runGlue(p *pkg) (*glue, string, int) {
	cfg, ok := glueConfigs[p.cfg.pkgDir]
	if !ok {
		return nil, "", 0
	}
	gl := newGlue(p, cfg)
	glueMode = true
	for _, r := range cfg.roots {
		gl.summaryOf(r, nil, nil)
	}
	glueMode = false
	if gl.nfail > 0 {
		var names []string
		for _, k := range gl.order {
			if gl.done[k].failed {
				names = append(names, k)
			}
		}
		sort.Strings(names)
		fmt.Fprintf(os.Stderr, "limbgen: %s: %d function(s) NOT translated (marker definitions emitted): %s\n",
			cfg.module, gl.nfail, strings.Join(names, " "))
	}
	return gl, gl.emitFile(), gl.nfail
}

package main

import (
	"go/ast"
	"go/token"
)

func unifyInt(a, b gkind) gkind {
	switch {
	case a == kUntyped:
		return b
	case b == kUntyped || a == b:
		return a
	}
	return kNone
}

// kindOf: the kind of a Go expression (syntactic, from declarations and tables).
func (g *gtrans) kindOf(e *genv, x ast.Expr) gkind {
	x = unparen(x)
	switch x := x.(type) {
	case *ast.BasicLit:
		if x.Kind == token.INT {
			return kUntyped
		}
	case *ast.Ident:
		if v := e.lookup(x.Name); v != nil {
			return v.kind
		}
		if x.Name == "true" || x.Name == "false" {
			return kBool
		}
		if _, ok := g.p.globals[x.Name]; ok {
			return kElem
		}
		if _, ok := g.gl.cfg.bigGlobals[x.Name]; ok {
			return kBig
		}
		if _, ok := g.gl.consts[x.Name]; ok {
			return kUntyped
		}
	case *ast.UnaryExpr:
		if x.Op == token.NOT {
			return kBool
		}
		return g.kindOf(e, x.X)
	case *ast.StarExpr:
		return g.kindOf(e, x.X)
	case *ast.BinaryExpr:
		switch x.Op {
		case token.LAND, token.LOR, token.EQL, token.NEQ, token.LSS, token.LEQ, token.GTR, token.GEQ:
			return kBool
		case token.SHL, token.SHR:
			return g.kindOf(e, x.X)
		}
		return unifyInt(g.kindOf(e, x.X), g.kindOf(e, x.Y))
	case *ast.IndexExpr:
		switch g.kindOf(e, x.X) {
		case kElem:
			return kU64
		case kElems:
			return kElem
		case kBools:
			return kBool
		case kWords:
			return kUint
		}
	case *ast.SliceExpr:
		return g.kindOf(e, x.X)
	case *ast.CompositeLit:
		if isIdent(x.Type, "Element") {
			return kElem
		}
	case *ast.TypeAssertExpr:
		if g.isPoolGet(x) {
			return kBig
		}
	case *ast.CallExpr:
		return g.kindOfCall(e, x)
	}
	return kNone
}

func (g *gtrans) kindOfCall(e *genv, x *ast.CallExpr) gkind {
	switch f := x.Fun.(type) {
	case *ast.Ident:
		if e.lookup(f.Name) == nil {
			switch f.Name {
			case "uint64":
				return kU64
			case "int", "len":
				return kInt
			case "uint":
				return kUint
			case "make", "new":
				if len(x.Args) >= 1 {
					k, _, _ := g.kindOfType(x.Args[0])
					return k
				}
				return kNone
			}
		}
		return g.kindOfResult(g.gl.summaryOf(f.Name, g, x), e, x, nil)
	case *ast.SelectorExpr:
		if isIdent(f.X, "bits") && e.lookup("bits") == nil {
			if f.Sel.Name == "Len64" {
				return kInt
			}
			return kNone
		}
		switch g.kindOf(e, f.X) {
		case kBig:
			switch f.Sel.Name {
			case "Cmp", "BitLen", "Sign":
				return kInt
			case "Bit":
				return kUint
			case "Bits":
				return kWords
			}
			return kBig
		case kElem:
			return g.kindOfResult(g.gl.summaryOf("Element."+f.Sel.Name, g, x), e, x, f.X)
		}
	}
	return kNone
}

func (g *gtrans) kindOfResult(s *gsum, e *genv, x *ast.CallExpr, recv ast.Expr) gkind {
	if s.retAlias != "" {
		for _, pa := range s.params {
			if pa.name == s.retAlias {
				return pa.kind
			}
		}
	}
	if len(s.results) == 1 {
		return s.results[0]
	}
	return kNone
}

// exprOfKind translates x, which must have kind `want`.
func (g *gtrans) exprOfKind(e *genv, x ast.Expr, want gkind) string {
	switch want {
	case kBool:
		return g.exprBool(e, x)
	case kElem:
		return g.exprElem(e, x)
	case kBig:
		return g.exprBig(e, x)
	case kBytes:
		return g.exprBytes(e, x)
	case kElems, kBools, kWords:
		return g.exprList(e, x, want)
	}
	t, k := g.exprInt(e, x)
	if unifyInt(k, want) == kNone {
		g.fail(x, "expression of type %s where %s is needed", k, want)
	}
	return t
}

func infix(a, op, b string) string { return "(" + paren(a) + " " + op + " " + paren(b) + ")" }

// exprInt translates an integer-valued expression (uint64, int, uint).
func (g *gtrans) exprInt(e *genv, x ast.Expr) (string, gkind) {
	x = unparen(x)
	if lit, ok := g.p.litU64(x); ok {
		return lit, kUntyped
	}
	switch x := x.(type) {
	case *ast.Ident:
		if v := e.lookup(x.Name); v != nil {
			if !v.kind.isInt() {
				g.fail(x, "%s has type %s, an integer is needed", x.Name, v.kind)
			}
			g.noteRead(e, x, v)
			return v.name, v.kind
		}
		if n, ok := g.gl.consts[x.Name]; ok {
			return itoa(n), kUntyped
		}
		g.fail(x, "unknown identifier %s in an integer expression", x.Name)
	case *ast.UnaryExpr:
		if x.Op == token.SUB {
			t, k := g.exprInt(e, x.X)
			if k != kInt && k != kUntyped {
				g.fail(x, "unary minus on %s (unsupported)", k)
			}
			return "(- " + paren(t) + ")", k
		}
	case *ast.IndexExpr:
		switch g.kindOf(e, x.X) {
		case kElem:
			return g.limbRead(e, x), kU64
		case kWords:
			id, ok := unparen(x.X).(*ast.Ident)
			if !ok {
				g.fail(x, "unsupported indexed expression")
			}
			v := e.lookup(id.Name)
			i := g.indexTerm(e, x.Index)
			g.noteRead(e, x, v)
			return app("lnth", "0", v.name, i), kUint
		}
		g.fail(x, "unsupported indexed expression in an integer expression")
	case *ast.BinaryExpr:
		return g.binaryInt(e, x)
	case *ast.CallExpr:
		return g.callInt(e, x)
	}
	g.fail(x, "unsupported integer expression (%T)", x)
	return "", kNone
}

func (g *gtrans) binaryInt(e *genv, x *ast.BinaryExpr) (string, gkind) {
	if x.Op == token.SHL || x.Op == token.SHR {
		a, ka := g.exprInt(e, x.X)
		c, ok := g.p.litU64(unparen(x.Y))
		if !ok || atoi(c) < 0 || atoi(c) > 63 || (ka != kU64 && ka != kUint) {
			g.fail(x, "shift: only uint64 << / >> literal count in 0..63")
		}
		if x.Op == token.SHR {
			return app("shr64", a, c), ka
		}
		return app("shl64", a, c), ka
	}
	a, ka := g.exprInt(e, x.X)
	b, kb := g.exprInt(e, x.Y)
	k := unifyInt(ka, kb)
	if k == kNone {
		g.fail(x, "operands of %s have types %s and %s", x.Op, ka, kb)
	}
	if k == kInt || k == kUntyped { // int: assumed not to overflow
		switch x.Op {
		case token.ADD:
			return infix(a, "+", b), k
		case token.SUB:
			return infix(a, "-", b), k
		case token.MUL:
			return infix(a, "*", b), k
		case token.QUO:
			return app("Z.quot", a, b), k
		case token.REM:
			return app("Z.rem", a, b), k
		}
	} else {
		switch x.Op {
		case token.ADD:
			return app("wadd", a, b), k
		case token.SUB:
			return app("wsub", a, b), k
		case token.MUL:
			return app("wmul", a, b), k
		case token.OR:
			return app("or64", a, b), k
		case token.AND:
			return app("and64", a, b), k
		}
	}
	g.fail(x, "unsupported operator %s on %s", x.Op, k)
	return "", kNone
}

func (g *gtrans) callInt(e *genv, x *ast.CallExpr) (string, gkind) {
	if id, ok := x.Fun.(*ast.Ident); ok && e.lookup(id.Name) == nil && len(x.Args) == 1 {
		switch id.Name {
		case "uint64", "uint":
			want := kU64
			if id.Name == "uint" {
				want = kUint
			}
			t, k := g.exprInt(e, x.Args[0])
			if k == kInt {
				return app("u64_of_int", t), want
			}
			return t, want
		case "int":
			t, k := g.exprInt(e, x.Args[0])
			if k == kU64 || k == kUint {
				return app("int_of_u64", t), kInt
			}
			return t, kInt
		case "len":
			k := g.kindOf(e, x.Args[0])
			if k != kElems && k != kBools && k != kBytes && k != kWords {
				g.fail(x, "len of %s (unsupported)", k)
			}
			return app("llen", g.exprOfKind(e, x.Args[0], k)), kInt
		}
	}
	if sel, ok := x.Fun.(*ast.SelectorExpr); ok {
		if isIdent(sel.X, "bits") && e.lookup("bits") == nil {
			if sel.Sel.Name != "Len64" || len(x.Args) != 1 {
				g.fail(x, "unsupported call bits.%s in an expression", sel.Sel.Name)
			}
			return app("len64", g.exprOfKind(e, x.Args[0], kU64)), kInt
		}
		if g.kindOf(e, sel.X) == kBig {
			r := g.exprBig(e, sel.X)
			switch {
			case sel.Sel.Name == "Cmp" && len(x.Args) == 1:
				return app("big_cmp", r, g.exprBig(e, x.Args[0])), kInt
			case sel.Sel.Name == "BitLen" && len(x.Args) == 0:
				return app("big_bitlen", r), kInt
			case sel.Sel.Name == "Bit" && len(x.Args) == 1:
				i, ki := g.exprInt(e, x.Args[0])
				if ki != kInt && ki != kUntyped {
					g.fail(x, "Bit: the index must be an int")
				}
				return app("big_bit", r, i), kUint
			}
			g.fail(x, "unsupported big.Int method %s in an integer expression", sel.Sel.Name)
		}
	}
	rs, _ := g.execCall(e, x)
	if len(rs) != 1 || !rs[0].kind.isInt() {
		g.fail(x, "this call cannot be used as an integer expression")
	}
	return rs[0].term, rs[0].kind
}

// indexTerm: an index expression (int or uint64).
func (g *gtrans) indexTerm(e *genv, x ast.Expr) string {
	t, _ := g.exprInt(e, x)
	return t
}

// limbRead: x[j] for an Element x.
func (g *gtrans) limbRead(e *genv, x *ast.IndexExpr) string {
	id, ok := unparen(x.X).(*ast.Ident)
	if !ok {
		g.fail(x, "unsupported limb access")
	}
	v := e.lookup(id.Name)
	if v == nil || v.kind != kElem {
		g.fail(x, "%s is not an Element variable", id.Name)
	}
	n := g.p.nlimbs
	if lit, ok := g.p.litU64(unparen(x.Index)); ok {
		j := atoi(lit)
		if j < 0 || j >= n {
			g.fail(x, "limb index %s out of range", lit)
		}
		g.noteRead(e, x, v)
		if n == 1 {
			return v.name
		}
		if !e.st[v].destr {
			g.line(e, letPattern(v.limbNames(n))+v.name+" in")
			e.st[v].destr = true
		}
		return v.name + itoa(j)
	}
	i := g.indexTerm(e, x.Index)
	g.noteRead(e, x, v)
	return app("limb_get", v.name, i)
}

// exprBool translates a bool-valued expression, keeping its syntactic structure.
func (g *gtrans) exprBool(e *genv, x ast.Expr) string {
	x = unparen(x)
	switch x := x.(type) {
	case *ast.Ident:
		if (x.Name == "true" || x.Name == "false") && e.lookup(x.Name) == nil {
			return x.Name
		}
		v := e.lookup(x.Name)
		if v == nil || v.kind != kBool {
			g.fail(x, "%s is not a bool variable", x.Name)
		}
		g.noteRead(e, x, v)
		return v.name
	case *ast.UnaryExpr:
		if x.Op == token.NOT {
			return app("negb", g.exprBool(e, x.X))
		}
	case *ast.IndexExpr:
		id, ok := unparen(x.X).(*ast.Ident)
		if ok {
			if v := e.lookup(id.Name); v != nil && v.kind == kBools {
				i := g.indexTerm(e, x.Index)
				g.noteRead(e, x, v)
				return app("lnth", "false", v.name, i)
			}
		}
	case *ast.BinaryExpr:
		switch x.Op {
		case token.LAND, token.LOR:
			a := g.exprBool(e, x.X)
			g.pure++ // the right operand is evaluated conditionally: it may not have effects
			b := g.exprBool(e, x.Y)
			g.pure--
			if x.Op == token.LAND {
				return app("andb", a, b)
			}
			return app("orb", a, b)
		}
		f, isCmp := cmpOps[x.Op]
		if !isCmp && x.Op != token.NEQ {
			g.fail(x, "unsupported bool operator %s", x.Op)
		}
		a, ka := g.exprInt(e, x.X)
		b, kb := g.exprInt(e, x.Y)
		if unifyInt(ka, kb) == kNone {
			g.fail(x, "comparison of %s with %s", ka, kb)
		}
		if x.Op == token.NEQ {
			return app("negb", app("Z.eqb", a, b))
		}
		return app(f, a, b)
	case *ast.CallExpr:
		rs, _ := g.execCall(e, x)
		if len(rs) != 1 || rs[0].kind != kBool {
			g.fail(x, "this call cannot be used as a bool expression")
		}
		return rs[0].term
	}
	g.fail(x, "unsupported bool expression (%T)", x)
	return ""
}

package main

import (
	"go/ast"
	"go/token"
)

var gOpAssign = map[token.Token]token.Token{
	token.SHR_ASSIGN: token.SHR, token.SHL_ASSIGN: token.SHL, token.OR_ASSIGN: token.OR,
	token.AND_ASSIGN: token.AND, token.MUL_ASSIGN: token.MUL, token.ADD_ASSIGN: token.ADD,
	token.SUB_ASSIGN: token.SUB,
}

func (g *gtrans) simple(s ast.Stmt, e *genv) {
	switch s := s.(type) {
	case *ast.EmptyStmt:
	case *ast.DeclStmt:
		gd, ok := s.Decl.(*ast.GenDecl)
		if !ok || gd.Tok != token.VAR {
			g.fail(s, "unsupported declaration")
		}
		for _, sp := range gd.Specs {
			g.varSpec(sp.(*ast.ValueSpec), e)
		}
	case *ast.ExprStmt:
		call, ok := s.X.(*ast.CallExpr)
		if !ok {
			g.fail(s, "unsupported expression statement")
		}
		g.execCall(e, call)
	case *ast.AssignStmt:
		g.assign(s, e)
	case *ast.IncDecStmt:
		op := token.ADD
		if s.Tok == token.DEC {
			op = token.SUB
		}
		one := &ast.BasicLit{ValuePos: s.TokPos, Kind: token.INT, Value: "1"}
		g.assignTo(e, s, s.X, &ast.BinaryExpr{X: s.X, OpPos: s.TokPos, Op: op, Y: one}, false)
	default:
		g.fail(s, "unsupported statement (%T)", s)
	}
}

// varSpec: var a, b T  /  var g = Element{..}
func (g *gtrans) varSpec(sp *ast.ValueSpec, e *genv) {
	if len(sp.Values) != 0 {
		if len(sp.Names) != 1 || len(sp.Values) != 1 {
			g.fail(sp, "unsupported var declaration with values")
		}
		k := kNone
		if sp.Type != nil {
			var ptr bool
			k, ptr, _ = g.kindOfType(sp.Type)
			if k == kNone || ptr {
				g.fail(sp, "var %s has an unsupported type", sp.Names[0].Name)
			}
		} else {
			k = g.kindOf(e, sp.Values[0])
		}
		if k == kUntyped {
			k = kInt
		}
		g.checkNoAliasCopy(e, sp.Values[0])
		term := g.exprOfKind(e, sp.Values[0], k)
		v := &gv{name: sp.Names[0].Name, kind: k}
		g.declare(e, sp, v, true)
		g.line(e, "let "+v.name+" := "+term+" in")
		return
	}
	for _, id := range sp.Names {
		k, ptr, n := g.kindOfType(sp.Type)
		if k == kNone || ptr {
			g.fail(sp, "var %s has an unsupported type", id.Name)
		}
		v := &gv{name: id.Name, kind: k, arrLen: n}
		g.declare(e, sp, v, true)
		g.line(e, "let "+v.name+" := "+g.zeroOf(k, n)+" in")
		e.st[v].carry = k == kU64 // the zero value is a carry
	}
}

func (g *gtrans) assign(s *ast.AssignStmt, e *genv) {
	if op, ok := gOpAssign[s.Tok]; ok { // x op= y
		if len(s.Lhs) != 1 || len(s.Rhs) != 1 {
			g.fail(s, "unsupported assignment")
		}
		g.assignTo(e, s, s.Lhs[0], &ast.BinaryExpr{X: s.Lhs[0], OpPos: s.TokPos, Op: op, Y: s.Rhs[0]}, false)
		return
	}
	if s.Tok != token.ASSIGN && s.Tok != token.DEFINE {
		g.fail(s, "unsupported assignment operator %s", s.Tok)
	}
	def := s.Tok == token.DEFINE
	if len(s.Rhs) != 1 {
		g.fail(s, "parallel assignment (unsupported)")
	}
	if len(s.Lhs) > 1 {
		g.assignMulti(s, def, e)
		return
	}
	g.assignTo(e, s, s.Lhs[0], s.Rhs[0], def)
}

// assignMulti: a, b = bits.Add64(..) and the like.
func (g *gtrans) assignMulti(s *ast.AssignStmt, def bool, e *genv) {
	call, ok := unparen(s.Rhs[0]).(*ast.CallExpr)
	if !ok {
		g.fail(s, "several destinations need a call on the right")
	}
	sel, ok := call.Fun.(*ast.SelectorExpr)
	if !ok || !isIdent(sel.X, "bits") || e.lookup("bits") != nil {
		g.fail(s, "several destinations: only bits.Add64 / Sub64 / Mul64 are supported here")
	}
	b, ok := bitsBuiltins[sel.Sel.Name]
	if !ok || len(call.Args) != b.nargs || len(s.Lhs) != 2 {
		g.fail(s, "unsupported call bits.%s", sel.Sel.Name)
	}
	if (b.coq == "add64" || b.coq == "sub64") && !g.carryArgOK(e, call.Args[2]) {
		g.fail(s, "the carry / borrow argument must be 0, 1 or a variable holding a carry (see carry.go)")
	}
	var as []string
	for _, a := range call.Args {
		as = append(as, g.exprOfKind(e, a, kU64))
	}
	var names []string
	var dsts []*gv
	for _, l := range s.Lhs {
		id, ok := unparen(l).(*ast.Ident)
		if !ok {
			g.fail(s, "unsupported destination of a multiple assignment")
		}
		if id.Name == "_" {
			names = append(names, "_")
			continue
		}
		v := e.lookup(id.Name)
		if def && v == nil {
			v = &gv{name: id.Name, kind: kU64}
			g.declare(e, s, v, true)
		} else if def || v == nil || v.kind != kU64 {
			g.fail(s, "assignment to %s: unknown variable, redeclaration or type mismatch", id.Name)
		}
		for _, d := range dsts {
			if d == v {
				g.fail(s, "%s assigned twice in one statement", v.name)
			}
		}
		dsts = append(dsts, v)
		names = append(names, v.name)
	}
	g.line(e, letPattern(names)+app(b.coq, as...)+" in")
	for _, v := range dsts {
		g.noteWrite(e, v)
	}
	if b.coq == "add64" || b.coq == "sub64" { // the second result is a carry / borrow
		if id, ok := unparen(s.Lhs[1]).(*ast.Ident); ok && id.Name != "_" {
			e.st[e.lookup(id.Name)].carry = true
		}
	}
}

// assignTo: lhs = rhs / lhs := rhs with one destination.
func (g *gtrans) assignTo(e *genv, s ast.Stmt, lhs, rhs ast.Expr, def bool) {
	lhs = unparen(lhs)
	switch x := lhs.(type) {
	case *ast.Ident:
		if x.Name == "_" {
			g.fail(s, "assignment to _")
		}
		if def {
			k := g.kindOf(e, rhs)
			if k == kUntyped {
				k = kInt
			}
			if k == kNone {
				g.fail(s, "cannot determine the type of %s", x.Name)
			}
			if g.isPoolGet(rhs) { // vv := bigIntPool.Get().(*big.Int): an object with arbitrary content
				g.declare(e, s, &gv{name: x.Name, kind: kBig}, false)
				return
			}
			g.checkNoAliasCopy(e, rhs)
			term := g.exprOfKind(e, rhs, k)
			v := &gv{name: x.Name, kind: k}
			if k == kBytes {
				v.arrLen = -1
			}
			g.declare(e, s, v, true)
			g.line(e, "let "+v.name+" := "+term+" in")
			return
		}
		v := e.lookup(x.Name)
		if v == nil {
			g.fail(s, "assignment to unknown variable %s", x.Name)
		}
		if v.ptr {
			g.fail(s, "assignment to the pointer %s itself (unsupported)", v.name)
		}
		g.checkNoAliasCopy(e, rhs)
		term := g.exprOfKind(e, rhs, v.kind)
		g.line(e, "let "+v.name+" := "+term+" in")
		g.noteWrite(e, v)
	case *ast.StarExpr: // *z = ..
		id, ok := unparen(x.X).(*ast.Ident)
		var v *gv
		if ok {
			v = e.lookup(id.Name)
		}
		if def || v == nil || !v.ptr {
			g.fail(s, "unsupported destination of an assignment")
		}
		term := g.exprOfKind(e, rhs, v.kind)
		g.line(e, "let "+v.name+" := "+term+" in")
		g.noteWrite(e, v)
	case *ast.IndexExpr: // z[i] = .. (limb), res[i] = .. (slice element)
		id, ok := unparen(x.X).(*ast.Ident)
		var v *gv
		if ok {
			v = e.lookup(id.Name)
		}
		if def || v == nil {
			g.fail(s, "unsupported destination of an assignment")
		}
		var term string
		switch v.kind {
		case kElem:
			val := g.exprOfKind(e, rhs, kU64)
			idx := g.indexTerm(e, x.Index)
			g.noteRead(e, s, v)
			term = app("limb_set", v.name, idx, val)
		case kElems, kBools:
			g.checkNotParamSlice(s, v)
			ek := kElem
			if v.kind == kBools {
				ek = kBool
			}
			val := g.exprOfKind(e, rhs, ek)
			idx := g.indexTerm(e, x.Index)
			g.noteRead(e, s, v)
			term = app("lupd", v.name, idx, val)
		default:
			g.fail(s, "unsupported indexed destination (%s)", v.kind)
		}
		g.line(e, "let "+v.name+" := "+term+" in")
		g.noteWrite(e, v)
	default:
		g.fail(s, "unsupported assignment destination (%T)", lhs)
	}
}

// isPoolGet: bigIntPool.Get().(*big.Int)
func (g *gtrans) isPoolGet(x ast.Expr) bool {
	ta, ok := unparen(x).(*ast.TypeAssertExpr)
	if !ok {
		return false
	}
	call, ok := ta.X.(*ast.CallExpr)
	if !ok {
		return false
	}
	sel, ok := call.Fun.(*ast.SelectorExpr)
	return ok && isIdent(sel.X, "bigIntPool") && sel.Sel.Name == "Get"
}

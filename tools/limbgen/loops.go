package main

// Loops.  Gallina has no unbounded loops, so a function with a loop is not
// translated to ONE definition but to FRAGMENTS, straight-line pieces that the
// hand-written model glues together with its own fuel-bounded fixpoints.
//
// Supported shape (anything else: exit 1):
//
//	func F(..) { P; for { for c1 { B1 }; ..; for cn { Bn }; T } }
//
// P, Bk, T loop-free, Bk without return.  With S = the variables declared in P
// (or parameters) that are assigned inside the outer loop and are LIVE at its
// head (read before being written on some path of one iteration), declaration
// order, the fragments are
//
//	F_pre        : <in-parameters of F>      -> R + S   inl: P returned, inr: state at the loop head
//	F_loopk_cond : S -> (read-only vars) -> bool
//	F_loopk_body : S -> (read-only vars) -> S
//	F_tail       : S -> (read-only vars) -> R + S       inl: returned, inr: next iteration
//
// (R = result type of F as for loop-free functions.)  Variables assigned in
// the loop but not live at its head (carry, borrow, bigger in Inverse: always
// written before they are read) are not part of S; the translator checks that
// none of them is live at the start of any fragment, and binds the scalar ones
// to an arbitrary value (0 / false) at the start of each fragment so that an
// `if` that assigns them can pass them through.

import (
	"fmt"
	"go/ast"
	"sort"
	"strings"
)

func containsLoop(list []ast.Stmt) bool {
	found := false
	for _, s := range list {
		ast.Inspect(s, func(n ast.Node) bool {
			switch n.(type) {
			case *ast.ForStmt, *ast.RangeStmt:
				found = true
			}
			return true
		})
	}
	return found
}

// resultType: Coq type of the result of the function (R above).
func (ft *ftrans) resultType() string {
	var rts []string
	for _, v := range ft.pvars {
		if v.ptrParam && ft.outSet[v] {
			rts = append(rts, "el")
		}
	}
	for _, r := range ft.sum.results {
		rts = append(rts, coqType(r))
	}
	if len(rts) == 0 {
		ft.p.failAt(ft.fd, "%s: function writes nothing and returns nothing", ft.sum.key)
	}
	return strings.Join(rts, " * ")
}

// fragEnv: environment at the start of a fragment.  Every variable in scope
// holds "the value it has here"; only those in `bound` (nil: all) are
// available as Coq variables.
func (ft *ftrans) fragEnv(e *env, bound map[*gvar]bool) *env {
	ef := e.clone()
	ef.ind = "  "
	for _, sc := range ef.scopes {
		for _, v := range sc {
			st := &vstate{}
			if v.isLimbs() {
				st.bound, st.init = make([]bool, v.n), make([]bool, v.n)
				for j := range st.init {
					st.init[j] = true
					st.bound[j] = v.typ == "arr" && (bound == nil || bound[v])
				}
				st.whole = v.typ == "elem" && (bound == nil || bound[v])
			} else {
				st.sinit = true
			}
			ef.st[v] = st
		}
	}
	for j := range ef.writers {
		ef.writers[j] = map[*gvar]bool{}
		for v := range ft.outSet {
			ef.writers[j][v] = true
		}
	}
	ef.push()
	return ef
}

// analyse runs `run` on a fresh fragment environment, discarding the output,
// and returns the variables read while they hold their entry value.
func (ft *ftrans) analyse(e *env, run func(ef *env)) map[*gvar]bool {
	out, seen, emitting, inFrag := ft.out, ft.inSeen, ft.emitting, ft.inFragment
	ft.out, ft.inSeen, ft.emitting, ft.inFragment = &strings.Builder{}, map[*gvar]bool{}, false, true
	run(ft.fragEnv(e, nil))
	res := ft.inSeen
	ft.out, ft.inSeen, ft.emitting, ft.inFragment = out, seen, emitting, inFrag
	return res
}

func sortedVars(m map[*gvar]bool) []*gvar {
	var vs []*gvar
	for v := range m {
		vs = append(vs, v)
	}
	sort.Slice(vs, func(i, j int) bool { return vs[i].seq < vs[j].seq })
	return vs
}

// stateTuple: current values of the state variables.
func (ft *ftrans) stateTuple(e *env, at ast.Node, state []*gvar) string {
	var parts []string
	for _, v := range state {
		if v.isLimbs() {
			parts = append(parts, ft.readWhole(e, at, v))
		} else {
			ft.noteScalarRead(e, v)
			parts = append(parts, v.name)
		}
	}
	return tupleOf(parts)
}

// fragment emits one loop fragment as a Coq definition.
func (ft *ftrans) fragment(name, what string, at ast.Node, e *env, all map[*gvar]bool, state []*gvar, resType string, run func(ef *env)) {
	p := ft.p
	inState := map[*gvar]bool{}
	for _, v := range state {
		inState[v] = true
	}
	reads := ft.analyse(e, run)
	bound := map[*gvar]bool{}
	var ro []*gvar
	for _, v := range sortedVars(reads) {
		if all[v] && !inState[v] {
			p.failAt(at, "%s: %s is live at the start of this loop fragment but not at the head of the outer loop (unsupported loop shape)", ft.sum.key, v.name)
		}
		if !inState[v] {
			ro = append(ro, v)
		}
	}
	params := append(append([]*gvar{}, state...), ro...)
	if ft.sum.frag != nil {
		ft.sum.frag.ro[name] = nil
		for _, v := range ro {
			ft.sum.frag.ro[name] = append(ft.sum.frag.ro[name], param{v.name, v.typ})
		}
	}
	for _, v := range params {
		if v.typ == "arr" {
			p.failAt(at, "%s: array %s would have to be passed to a loop fragment (unsupported)", ft.sum.key, v.name)
		}
		bound[v] = true
	}
	if !ft.emitting {
		return
	}
	out, inFrag, seen := ft.out, ft.inFragment, ft.inSeen
	ft.out, ft.inFragment, ft.inSeen = &strings.Builder{}, true, map[*gvar]bool{}
	ef := ft.fragEnv(e, bound)
	for _, sc := range ef.scopes {
		var dead []*gvar
		for _, v := range sc {
			if !v.isLimbs() && !bound[v] {
				dead = append(dead, v)
			}
		}
		sort.Slice(dead, func(i, j int) bool { return dead[i].seq < dead[j].seq })
		for _, v := range dead {
			ft.line(ef, "let "+v.name+" := "+zeroOf(v.typ)+" in (* not live here: arbitrary *)")
		}
	}
	run(ef)
	body := ft.out.String()
	ft.out, ft.inFragment, ft.inSeen = out, inFrag, seen
	var b strings.Builder
	pos := p.fset.Position(at.Pos())
	fmt.Fprintf(&b, "(* %s/%s:%d  func %s: %s *)\n", p.cfg.pkgDir, shortName(pos.Filename), pos.Line, ft.sum.key, what)
	b.WriteString("Definition " + name)
	for _, v := range params {
		b.WriteString(" (" + v.name + " : " + coqType(v.typ) + ")")
	}
	b.WriteString(" : " + resType + " :=\n" + strings.TrimRight(body, "\n") + ".\n")
	if other, dup := p.coqUsed[name]; dup {
		p.failAt(at, "Coq name %s already used by %s", name, other)
	}
	p.coqUsed[name] = ft.sum.key + " (loop fragment)"
	ft.frags = append(ft.frags, b.String())
}

func (ft *ftrans) loopStmt(s *ast.ForStmt, rest []ast.Stmt, e *env, k cont) {
	p := ft.p
	if ft.inFragment || !k.tail || len(rest) != 0 || s.Init != nil || s.Post != nil || s.Cond != nil || len(e.scopes) != 2 {
		p.failAt(s, "%s: unsupported loop (only `for { .. }` as the last statement of a function, see loops.go)", ft.sum.key)
	}
	// split the body: inner loops first, then a loop-free tail
	var inner []*ast.ForStmt
	body := s.Body.List
	for len(body) > 0 {
		f, ok := body[0].(*ast.ForStmt)
		if !ok {
			break
		}
		if f.Init != nil || f.Post != nil || f.Cond == nil || containsLoop(f.Body.List) || containsReturn(f.Body.List) {
			p.failAt(f, "%s: unsupported inner loop (only `for cond { loop-free, return-free }`)", ft.sum.key)
		}
		inner = append(inner, f)
		body = body[1:]
	}
	if containsLoop(body) {
		p.failAt(s, "%s: inner loops must come first in the body of the outer loop (unsupported loop shape)", ft.sum.key)
	}
	tail := body
	// variables assigned in the loop
	all := map[*gvar]bool{}
	for _, t := range ft.assignedIn([]ast.Stmt{s}, e) {
		all[t.v] = true
	}
	// liveness at the loop head: one iteration, inner loops as `if`
	var once []ast.Stmt
	for _, f := range inner {
		once = append(once, &ast.IfStmt{If: f.For, Cond: f.Cond, Body: f.Body})
	}
	once = append(once, tail...)
	live := ft.analyse(e, func(ef *env) {
		ft.stmts(once, ef, cont{tail: true, f: func(*env) {}})
	})
	var state []*gvar
	for _, v := range sortedVars(live) {
		if all[v] {
			state = append(state, v)
		}
	}
	if len(state) == 0 {
		p.failAt(s, "%s: loop without state", ft.sum.key)
	}
	var ts []string
	for _, v := range state {
		ts = append(ts, coqType(v.typ))
	}
	ft.stateType = strings.Join(ts, " * ")
	ft.sum.frag = &fragInfo{inner: len(inner), ro: map[string][]param{}}
	for _, v := range state {
		ft.sum.frag.stateNames = append(ft.sum.frag.stateNames, v.name)
		ft.sum.frag.stateTypes = append(ft.sum.frag.stateTypes, coqType(v.typ))
	}
	// end of the pre fragment
	ft.line(e, "inr "+paren(ft.stateTuple(e, s, state)))
	// the fragments
	base := ft.sum.coqName
	for i, f := range inner {
		f := f
		ft.fragment(fmt.Sprintf("%s_loop%d_cond", base, i+1), fmt.Sprintf("inner loop %d, condition", i+1), f, e, all, state, "bool",
			func(ef *env) { ft.line(ef, ft.exprB(ef, f.Cond)) })
		ft.fragment(fmt.Sprintf("%s_loop%d_body", base, i+1), fmt.Sprintf("inner loop %d, body", i+1), f.Body, e, all, state, ft.stateType,
			func(ef *env) {
				ft.branch(f.Body.List, ef, cont{tail: true, f: func(e2 *env) { ft.line(e2, ft.stateTuple(e2, f, state)) }})
			})
	}
	at := ast.Node(s)
	if len(tail) > 0 {
		at = tail[0]
	}
	ft.fragment(base+"_tail", "outer loop, after the inner loops", at, e, all, state, ft.resultType()+" + ("+ft.stateType+")",
		func(ef *env) {
			ft.branch(tail, ef, cont{tail: true, f: func(e2 *env) { ft.line(e2, "inr "+paren(ft.stateTuple(e2, s, state))) }})
		})
}

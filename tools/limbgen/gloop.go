package main

// Loops of glue functions.  Every loop becomes an auxiliary Fixpoint
// <F>_loop<k> (k: number of the loop in source order), emitted before <F>:
//
//	for i := A; i < B; i++ { body }   (B loop-invariant, i not assigned in body)
//	    Fixpoint L (n : nat) (i : Z) ro.. state.. : S   -- n iterations, i, i+1, ..
//	    call: L (Z.to_nat (B - A)) A ro.. state..
//	for i := A; i >= 0; i-- { body }  (i an int)
//	    Fixpoint L (n : nat) ro.. state.. : S            -- i = n-1, .., 0
//	    call: L (Z.to_nat (A + 1)) ro.. state..
//	for cond { body }
//	    Fixpoint L (fuel<k> : nat) .. : fuelled S        -- OutOfFuel when fuel<k> is exhausted
//	for { body with return }          (last statement of the function, not nested)
//	    Fixpoint L (fuel<k> : nat) .. : <result type of F>
//
// ro = outer variables read in the loop, state = outer variables assigned in
// the loop that are live at its head or (loops that can be left) defined
// before it; both in declaration order.  A counted loop whose body needs fuel
// has result type fuelled S as well.

import (
	"fmt"
	"go/ast"
	"go/token"
	"sort"
	"strings"
)

type loopKind int

const (
	loopInfinite loopKind = iota
	loopWhile
	loopUp
	loopDown
)

type loopCtx struct {
	kind   loopKind
	parent *loopCtx
	fuels  []string
	next   func(e *genv) // emits "go to the next iteration" with the current state
}

func (l *loopCtx) addFuel(name string) {
	for _, f := range l.fuels {
		if f == name {
			return
		}
	}
	l.fuels = append(l.fuels, name)
}

func sortedGv(m map[*gv]bool) []*gv {
	var vs []*gv
	for v := range m {
		vs = append(vs, v)
	}
	sort.Slice(vs, func(i, j int) bool { return vs[i].seq < vs[j].seq })
	return vs
}

func (g *gtrans) forStmt(s *ast.ForStmt, rest []ast.Stmt, e *genv, k gcont) {
	// ---- classification
	kind := loopInfinite
	var ivar *gv
	var from, bound ast.Expr
	switch {
	case s.Init == nil && s.Cond == nil && s.Post == nil:
	case s.Init == nil && s.Post == nil:
		kind = loopWhile
	default:
		kind, ivar, from, bound = g.countedLoop(s, e)
	}
	if kind == loopInfinite && (g.loop != nil || !k.tail || len(rest) != 0) {
		g.fail(s, "`for { }` is supported as the last statement of a function only")
	}
	if _, ok := g.loopNo[s]; !ok {
		g.nloops++
		g.loopNo[s] = g.nloops
	}
	no := g.loopNo[s]
	name := g.sum.coqName + "_loop" + itoa(no)
	ownFuel := "fuel" + itoa(no)

	// ---- analysis: one iteration on a copy of the environment
	assigned := map[*gv]bool{}
	for _, v := range g.assignedOuter(s.Body.List, e) {
		assigned[v] = true
	}
	outer := map[*gv]bool{}
	for _, v := range e.all() {
		outer[v] = true
	}
	runBody := func(eb *genv, ctx *loopCtx) {
		eb.push()
		if ivar != nil {
			g.declare(eb, s, ivar, true)
			if kind == loopDown {
				g.line(eb, "let "+ivar.name+" := Z.of_nat n in")
			}
		}
		saved := g.loop
		g.loop = ctx
		if kind == loopWhile {
			cond := g.exprBool(eb, s.Cond)
			g.line(eb, "if "+cond+" then (")
			g.branch(s.Body.List, eb.indented(), gcont{f: ctx.next})
			g.line(eb, ") else (")
			ctx.next(nil)
			g.line(eb, ")")
		} else {
			g.branch(s.Body.List, eb, gcont{f: ctx.next})
		}
		g.loop = saved
	}
	ea := e.clone()
	for _, st := range ea.st {
		st.entry, st.destr, st.carry = true, false, false
	}
	sOut, sLive, sSaw, sClosers := g.out, g.liveIn, g.sawFuel, g.closers
	g.out, g.liveIn, g.sawFuel, g.closers = &strings.Builder{}, map[*gv]bool{}, false, nil
	g.dry++
	actx := &loopCtx{kind: kind, parent: g.loop, next: func(*genv) {}}
	if ivar != nil {
		et := e.clone()
		et.push()
		g.declare(et, s, ivar, true)
		for _, v := range g.assignedOuter(s.Body.List, et) {
			if v == ivar {
				g.fail(s, "the loop variable is assigned in the body")
			}
		}
	}
	g.pushGuard(e, sortedGv(assigned))
	runBody(ea, actx)
	g.popGuard()
	g.dry--
	live, fails := g.liveIn, g.sawFuel || kind == loopInfinite || kind == loopWhile
	g.out, g.liveIn, g.sawFuel, g.closers = sOut, sLive, sSaw || g.sawFuel, sClosers

	var state, ro []*gv
	for _, v := range sortedGv(assigned) {
		if live[v] || (kind != loopInfinite && e.st[v].defined) {
			state = append(state, v)
		}
	}
	inState := map[*gv]bool{}
	for _, v := range state {
		inState[v] = true
	}
	for _, v := range sortedGv(live) {
		if outer[v] && !inState[v] {
			ro = append(ro, v)
		}
	}
	if len(state) == 0 && kind != loopInfinite {
		g.fail(s, "loop without state")
	}
	if ivar != nil && bound != nil { // the bound must be loop-invariant
		bad := false
		ast.Inspect(bound, func(n ast.Node) bool {
			if id, ok := n.(*ast.Ident); ok {
				if v := e.lookup(id.Name); v != nil && assigned[v] {
					bad = true
				}
			}
			if _, ok := n.(*ast.CallExpr); ok && !isLenCall(n.(*ast.CallExpr)) {
				bad = true
			}
			return true
		})
		if bad {
			g.fail(s, "the bound of the counted loop is not loop-invariant (or contains a call)")
		}
	}
	var stNames, stTypes []string
	for _, v := range state {
		stNames = append(stNames, v.name)
		stTypes = append(stTypes, v.kind.coq())
	}
	stType := strings.Join(stTypes, " * ")
	resType := stType
	if kind == loopInfinite {
		resType = g.resultType()
	} else if fails {
		resType = "fuelled (" + stType + ")"
	}

	// ---- the auxiliary definition
	ctx := &loopCtx{kind: kind, parent: g.loop}
	{
		eb := e.clone()
		eb.ind = "    "
		for v, st := range eb.st {
			st.destr, st.entry, st.carry = false, false, false
			if inState[v] || containsGv(ro, v) {
				st.defined, st.initial = true, false
			} else if assigned[v] {
				st.defined = false
			}
		}
		recArgs := func() string {
			var as []string
			if kind == loopInfinite || kind == loopWhile {
				as = append(as, ownFuel)
			} else {
				as = append(as, "n")
			}
			for _, f := range ctx.fuels {
				if f != ownFuel {
					as = append(as, f)
				}
			}
			if kind == loopUp {
				as = append(as, "("+ivar.name+" + 1)")
			}
			for _, v := range ro {
				as = append(as, v.name)
			}
			return strings.Join(as, " ")
		}
		const marker = "\x00REC\x00"
		ctx.next = func(e2 *genv) {
			if e2 == nil { // exit of a `for cond` loop
				g.line(eb.indented(), "Done "+paren(tupleOf(stNames)))
				return
			}
			for _, v := range state {
				g.noteRead(e2, s, v)
			}
			g.line(e2, marker+" "+strings.Join(stNames, " "))
		}
		sOut, sClosers := g.out, g.closers
		g.out, g.closers = &strings.Builder{}, nil
		g.pushGuard(e, sortedGv(assigned))
		runBody(eb, ctx)
		g.popGuard()
		body := g.out.String()
		g.out, g.closers = sOut, sClosers
		if kind == loopInfinite || kind == loopWhile {
			ctx.addFuel(ownFuel)
		}
		ctx.fuels = sortFuels(ctx.fuels)
		body = strings.ReplaceAll(body, marker, name+" "+recArgs())
		if g.dry == 0 {
			g.aux = append(g.aux, g.loopDef(s, name, no, kind, ownFuel, ctx, ivar, ro, state, resType, fails, body))
		}
	}

	// ---- the call
	for _, f := range ctx.fuels {
		if f != ownFuel {
			g.useFuel(s, f)
		}
	}
	var as []string
	start := ""
	switch kind {
	case loopInfinite, loopWhile:
		g.useFuel(s, ownFuel)
		as = append(as, ownFuel)
	case loopUp:
		a, _ := g.exprInt(e, from)
		b, _ := g.exprInt(e, bound)
		as = append(as, "(Z.to_nat "+infix(b, "-", a)+")")
		start = paren(a)
	case loopDown:
		a, _ := g.exprInt(e, from)
		as = append(as, "(Z.to_nat "+infix(a, "+", "1")+")")
	}
	for _, f := range ctx.fuels {
		if f != ownFuel {
			as = append(as, f)
		}
	}
	if start != "" {
		as = append(as, start)
	}
	for _, v := range ro {
		g.noteRead(e, s, v)
		as = append(as, v.name)
	}
	for _, v := range state {
		g.noteRead(e, s, v)
		as = append(as, v.name)
	}
	for _, v := range ro { // a read-only pointer parameter may not alias a pointer parameter the loop writes
		for w := range assigned {
			if v.ptr && e.st[v].initial && w.ptr && w != v && w.kind == v.kind {
				g.fail(s, "ALIASING: the loop reads *%s and writes *%s; with %s == %s the functional translation would be unsound",
					v.name, w.name, v.name, w.name)
			}
		}
	}
	callTerm := name + " " + strings.Join(as, " ")
	switch {
	case kind == loopInfinite:
		g.line(e, callTerm)
		return
	case fails:
		g.line(e, "match "+callTerm+" with")
		g.line(e, "| OutOfFuel => OutOfFuel")
		g.line(e, "| Done "+tupleOf(stNames)+" =>")
		for _, v := range state {
			g.noteWrite(e, v)
		}
		g.stmts(rest, e, k)
		g.line(e, "end")
	default:
		g.line(e, letPattern(stNames)+callTerm+" in")
		for _, v := range state {
			g.noteWrite(e, v)
		}
		g.stmts(rest, e, k)
	}
}

func containsGv(l []*gv, v *gv) bool {
	for _, x := range l {
		if x == v {
			return true
		}
	}
	return false
}

func isLenCall(c *ast.CallExpr) bool { return isIdent(c.Fun, "len") && len(c.Args) == 1 }

// countedLoop recognises `for i := A; i < B; i++` and `for i := A; i >= 0; i--`.
func (g *gtrans) countedLoop(s *ast.ForStmt, e *genv) (loopKind, *gv, ast.Expr, ast.Expr) {
	bad := func() {
		g.fail(s, "unsupported loop header (only `for i := A; i < B; i++` and `for i := A; i >= 0; i--`)")
	}
	init, ok := s.Init.(*ast.AssignStmt)
	if !ok || init.Tok != token.DEFINE || len(init.Lhs) != 1 || len(init.Rhs) != 1 || s.Cond == nil || s.Post == nil {
		bad()
	}
	id, ok := init.Lhs[0].(*ast.Ident)
	if !ok {
		bad()
	}
	k := g.kindOf(e, init.Rhs[0])
	if k == kUntyped {
		k = kInt
	}
	if k != kInt && k != kU64 {
		bad()
	}
	cond, ok := unparen(s.Cond).(*ast.BinaryExpr)
	post, ok2 := s.Post.(*ast.IncDecStmt)
	if !ok || !ok2 || !isIdent(unparen(cond.X), id.Name) || !isIdent(unparen(post.X), id.Name) {
		bad()
	}
	v := &gv{name: id.Name, kind: k}
	switch {
	case cond.Op == token.LSS && post.Tok == token.INC:
		return loopUp, v, init.Rhs[0], cond.Y
	case cond.Op == token.GEQ && post.Tok == token.DEC && k == kInt:
		if lit, ok := g.p.litU64(unparen(cond.Y)); ok && lit == "0" {
			return loopDown, v, init.Rhs[0], nil
		}
	}
	bad()
	return 0, nil, nil, nil
}

func (g *gtrans) loopDef(s *ast.ForStmt, name string, no int, kind loopKind, ownFuel string, ctx *loopCtx,
	ivar *gv, ro, state []*gv, resType string, fails bool, body string) string {
	var b strings.Builder
	pos := g.p.fset.Position(s.Pos())
	what := map[loopKind]string{loopInfinite: "for { .. }", loopWhile: "for cond { .. }",
		loopUp: "for i := A; i < B; i++ { .. }", loopDown: "for i := A; i >= 0; i-- { .. }"}[kind]
	fmt.Fprintf(&b, "(* %s/%s:%d  func %s: loop %d, `%s` *)\n", g.p.cfg.pkgDir, shortName(pos.Filename), pos.Line, g.key, no, what)
	b.WriteString("Fixpoint " + name)
	structArg := "n"
	if kind == loopInfinite || kind == loopWhile {
		structArg = ownFuel
		b.WriteString(" (" + ownFuel + " : nat)")
	} else {
		b.WriteString(" (n : nat)")
	}
	for _, f := range ctx.fuels {
		if f != ownFuel {
			b.WriteString(" (" + f + " : nat)")
		}
	}
	if kind == loopUp {
		b.WriteString(" (" + ivar.name + " : Z)")
	}
	for _, v := range append(append([]*gv{}, ro...), state...) {
		b.WriteString(" (" + v.name + " : " + v.kind.coq() + ")")
	}
	var stNames []string
	for _, v := range state {
		stNames = append(stNames, v.name)
	}
	b.WriteString(" {struct " + structArg + "} : " + resType + " :=\n")
	b.WriteString("  match " + structArg + " with\n")
	switch {
	case kind == loopInfinite || kind == loopWhile:
		b.WriteString("  | O => OutOfFuel\n")
	case fails:
		b.WriteString("  | O => Done " + paren(tupleOf(stNames)) + "\n")
	default:
		b.WriteString("  | O => " + tupleOf(stNames) + "\n")
	}
	b.WriteString("  | S " + structArg + " =>\n")
	b.WriteString(strings.TrimRight(body, "\n") + "\n  end.\n")
	return b.String()
}

package main

import (
	"fmt"
	"go/ast"
	"os"
)

// ---- analysis hooks -------------------------------------------------------

// noteRead: limb j of v is read here.
//   - a variable read while it may hold the value it had at the start of the
//     function (pointer parameter: the caller's value) or of the current loop
//     fragment is an "in" parameter of the function / fragment;
//   - ALIASING CHECK: if limb j may last have been written through ANOTHER
//     pointer parameter w, then with v == w (in-place call) Go would read the
//     new value while the functional model reads the old one: rejected unless
//     the pair is declared distinct in the configuration.
func (ft *ftrans) noteRead(e *env, at ast.Node, v *gvar, j int) {
	if v.global {
		return
	}
	if e.st[v].init[j] {
		ft.inSeen[v] = true
	}
	if !v.ptrParam {
		return
	}
	for w := range e.writers[j] {
		if w != v && !ft.sum.assumesDistinct(v.name, w.name) {
			if noAliasCheck && !glueMode {
				if !ft.emitting {
					fmt.Fprintf(os.Stderr, "limbgen: WARNING (-noaliascheck) %s: %s: ALIASING: %s[%d] is read after %s[%d] was written\n",
						ft.p.pos(at), ft.sum.key, v.name, j, w.name, j)
				}
				continue
			}
			ft.p.failAt(at, "%s: ALIASING: %s[%d] is read after %s[%d] was written; "+
				"with %s == %s the functional translation would be unsound",
				ft.sum.key, v.name, j, w.name, j, v.name, w.name)
		}
	}
}

func (ft *ftrans) noteWrite(e *env, v *gvar, j int) {
	e.st[v].init[j] = false
	if !v.ptrParam {
		return
	}
	if !ft.outSet[v] {
		ft.p.failAt(ft.fd, "internal: write to %s missed by the pre-scan", v.name)
	}
	e.writers[j] = map[*gvar]bool{v: true}
}

// scalar variables: "init" = may still hold the value it had at the start of
// the current fragment (only meaningful inside loop fragments, see loops.go)
func (ft *ftrans) noteScalarRead(e *env, v *gvar) {
	if s, ok := e.st[v]; ok && s.sinit {
		ft.inSeen[v] = true
	}
}

func (ft *ftrans) noteScalarWrite(e *env, v *gvar) {
	if s, ok := e.st[v]; ok {
		s.sinit = false
		s.carry = false
	}
}

// ---- access to limb variables --------------------------------------------

func (ft *ftrans) destructure(e *env, v *gvar) {
	s := e.st[v]
	ft.line(e, letPattern(v.limbNames())+v.name+" in")
	s.whole = false
	for j := range s.bound {
		s.bound[j] = true
	}
}

func (ft *ftrans) stateOf(e *env, at ast.Node, v *gvar) *vstate {
	s, ok := e.st[v]
	if !ok {
		ft.p.failAt(at, "internal: variable %s has no state", v.name)
	}
	return s
}

// readLimb returns the Coq variable holding limb j of v.
func (ft *ftrans) readLimb(e *env, at ast.Node, v *gvar, j int) string {
	if v.global {
		return ft.p.globals[v.name][j]
	}
	s := ft.stateOf(e, at, v)
	if s.whole {
		ft.destructure(e, v)
	}
	if !s.bound[j] {
		ft.p.failAt(at, "%s: %s[%d] is read before it is assigned on this path (unsupported)", ft.sum.key, v.name, j)
	}
	ft.noteRead(e, at, v, j)
	return v.limb(j)
}

// readWhole returns a Coq term for the whole value of v.
func (ft *ftrans) readWhole(e *env, at ast.Node, v *gvar) string {
	if v.global {
		return tupleOf(ft.p.globals[v.name])
	}
	s := ft.stateOf(e, at, v)
	for j := 0; j < v.n; j++ {
		if !s.whole && !s.bound[j] {
			ft.p.failAt(at, "%s: %s is read as a whole but limb %d is not assigned on this path (unsupported)", ft.sum.key, v.name, j)
		}
		ft.noteRead(e, at, v, j)
	}
	if s.whole {
		return v.name
	}
	return tupleOf(v.limbNames())
}

// writeLimb prepares the assignment of limb j and returns the name to bind.
func (ft *ftrans) writeLimb(e *env, at ast.Node, v *gvar, j int) string {
	if v.global {
		ft.p.failAt(at, "assignment to package-level Element %s", v.name)
	}
	s := ft.stateOf(e, at, v)
	if s.whole {
		ft.destructure(e, v)
	}
	return v.limb(j)
}

// afterWriteLimb records the assignment (after the let has been emitted).
func (ft *ftrans) afterWriteLimb(e *env, v *gvar, j int) {
	e.st[v].bound[j] = true
	ft.noteWrite(e, v, j)
}

// writeWhole: the let binding <name> has been emitted.
func (ft *ftrans) afterWriteWhole(e *env, at ast.Node, v *gvar) {
	if v.global {
		ft.p.failAt(at, "assignment to package-level Element %s", v.name)
	}
	if v.typ != "elem" {
		ft.p.failAt(at, "whole assignment to %s, which is not an Element", v.name)
	}
	s := ft.stateOf(e, at, v)
	s.whole = true
	for j := range s.bound {
		s.bound[j] = false
		ft.noteWrite(e, v, j)
	}
}

// forceLimbs makes sure v is held in limb variables.
func (ft *ftrans) forceLimbs(e *env, v *gvar) {
	if v.isLimbs() && e.st[v].whole {
		ft.destructure(e, v)
	}
}

// limbRef parses x[i] with a literal index.
func (ft *ftrans) limbRef(e *env, x ast.Expr) (*gvar, int, bool) {
	ix, ok := x.(*ast.IndexExpr)
	if !ok {
		return nil, 0, false
	}
	id, ok := ix.X.(*ast.Ident)
	if !ok {
		ft.p.failAt(x, "indexing of something that is not a variable")
	}
	v := e.lookup(id.Name)
	if v == nil {
		if _, isG := ft.p.globals[id.Name]; isG {
			v = &gvar{name: id.Name, typ: "elem", n: ft.p.nlimbs, global: true}
		} else {
			ft.p.failAt(x, "unknown variable %s", id.Name)
		}
	}
	if !v.isLimbs() {
		ft.p.failAt(x, "%s is not an array", id.Name)
	}
	lit, ok := ft.p.litU64(ix.Index)
	if !ok {
		ft.p.failAt(x, "index of %s is not an integer literal (unsupported)", id.Name)
	}
	j := atoi(lit)
	if j < 0 || j >= v.n {
		ft.p.failAt(x, "index %s out of range for %s", lit, id.Name)
	}
	return v, j, true
}

package main

import (
	"go/ast"
	"go/token"
)

type gcont struct {
	tail bool
	f    func(e *genv)
}

// jumps: return or continue.
func alwaysJumps(list []ast.Stmt) bool {
	if len(list) == 0 {
		return false
	}
	switch s := list[len(list)-1].(type) {
	case *ast.ReturnStmt:
		return true
	case *ast.BranchStmt:
		return s.Tok == token.CONTINUE && s.Label == nil
	case *ast.BlockStmt:
		return alwaysJumps(s.List)
	case *ast.IfStmt:
		B, hasElse := elseList(s)
		return hasElse && alwaysJumps(s.Body.List) && alwaysJumps(B)
	case *ast.ForStmt:
		return s.Cond == nil && s.Init == nil && s.Post == nil
	}
	return false
}

// containsJump: a return anywhere, or a continue that belongs to an enclosing loop.
func containsJump(list []ast.Stmt) bool {
	found := false
	var walk func(n ast.Node, inLoop bool)
	walk = func(n ast.Node, inLoop bool) {
		ast.Inspect(n, func(m ast.Node) bool {
			switch x := m.(type) {
			case *ast.ReturnStmt:
				found = true
			case *ast.BranchStmt:
				if !inLoop && x.Tok == token.CONTINUE {
					found = true
				}
			case *ast.ForStmt:
				if m != n {
					walk(x.Body, true)
					return false
				}
			}
			return true
		})
	}
	for _, s := range list {
		walk(s, false)
	}
	return found
}

func (g *gtrans) stmts(list []ast.Stmt, e *genv, k gcont) {
	for i, s := range list {
		rest := list[i+1:]
		switch s := s.(type) {
		case *ast.IfStmt:
			g.ifStmt(s, rest, e, k)
			return
		case *ast.ForStmt:
			g.forStmt(s, rest, e, k)
			return
		case *ast.ReturnStmt:
			if len(rest) != 0 {
				g.fail(rest[0], "statement after return")
			}
			g.returnStmt(s, e)
			return
		case *ast.BranchStmt:
			if s.Tok != token.CONTINUE || s.Label != nil || g.loop == nil {
				g.fail(s, "unsupported branch statement %s", s.Tok)
			}
			if len(rest) != 0 {
				g.fail(rest[0], "statement after continue")
			}
			g.loop.next(e)
			return
		case *ast.BlockStmt:
			e.push()
			g.stmts(s.List, e, gcont{tail: k.tail && len(rest) == 0, f: func(e2 *genv) {
				e2.pop()
				g.stmts(rest, e2, k)
			}})
			return
		default:
			n := len(g.closers)
			g.simple(s, e)
			if len(g.closers) > n { // a match was opened: the rest goes inside
				g.stmts(rest, e, k)
				g.closeTo(e, n)
				return
			}
		}
	}
	k.f(e)
}

func (g *gtrans) closeTo(e *genv, n int) {
	for len(g.closers) > n {
		g.line(e, g.closers[len(g.closers)-1])
		g.closers = g.closers[:len(g.closers)-1]
	}
}

func (g *gtrans) branch(list []ast.Stmt, e *genv, k gcont) {
	e.push()
	g.stmts(list, e, gcont{tail: k.tail, f: func(e2 *genv) {
		e2.pop()
		k.f(e2)
	}})
}

// isUintSizeTest: the constant condition bits.UintSize == 64.
func isUintSizeTest(x ast.Expr) bool {
	b, ok := unparen(x).(*ast.BinaryExpr)
	if !ok || b.Op != token.EQL {
		return false
	}
	sel, ok := unparen(b.X).(*ast.SelectorExpr)
	lit, ok2 := unparen(b.Y).(*ast.BasicLit)
	return ok && ok2 && isIdent(sel.X, "bits") && sel.Sel.Name == "UintSize" && lit.Value == "64"
}

func (g *gtrans) ifStmt(s *ast.IfStmt, rest []ast.Stmt, e *genv, k gcont) {
	if s.Init != nil {
		g.fail(s, "if with an init statement (unsupported)")
	}
	A := s.Body.List
	B, hasElse := elseList(s)
	if isUintSizeTest(s.Cond) && e.lookup("bits") == nil {
		// constant condition: only 64-bit platforms are modelled (UintSize = 64 in
		// Lib/GoGlue.v); the other branch is NOT translated, and the output says so
		g.line(e, "(* if bits.UintSize == 64: constant condition on the modelled (64-bit) platforms; the else branch is not translated *)")
		e.push()
		g.stmts(A, e, gcont{tail: k.tail && len(rest) == 0, f: func(e2 *genv) {
			e2.pop()
			g.stmts(rest, e2, k)
		}})
		return
	}
	jA, jB := alwaysJumps(A), hasElse && alwaysJumps(B)
	after := gcont{tail: k.tail && len(rest) == 0, f: func(e2 *genv) { g.stmts(rest, e2, k) }}
	unreachable := gcont{f: func(*genv) { g.fail(s, "internal: continuation of a jumping branch used") }}
	switch {
	case jA || jB || (len(rest) == 0 && k.tail):
		if jA && jB && len(rest) != 0 {
			g.fail(rest[0], "unreachable statement")
		}
		cond := g.exprBool(e, s.Cond)
		kA, kB := after, after
		if jA {
			kA = unreachable
		}
		if jB {
			kB = unreachable
		}
		g.line(e, "if "+cond+" then (")
		g.branch(A, e.indented(), kA)
		g.line(e, ") else (")
		g.branch(B, e.indented(), kB)
		g.line(e, ")")
	default:
		for _, st := range append(append([]ast.Stmt{}, A...), B...) {
			ast.Inspect(st, func(n ast.Node) bool {
				if b, ok := n.(*ast.BranchStmt); ok && b.Tok != token.CONTINUE {
					g.fail(b, "unsupported branch statement %s", b.Tok)
				}
				return true
			})
		}
		if containsJump(A) || containsJump(B) {
			g.fail(s, "a branch returns or continues on some paths only (unsupported)")
		}
		g.joinIf(s, A, B, e)
		g.stmts(rest, e, k)
	}
}

// joinIf: let '(vars) := if c then (A; (vars)) else (B; (vars)) in
func (g *gtrans) joinIf(s *ast.IfStmt, A, B []ast.Stmt, e *genv) {
	targets := g.assignedOuter(append(append([]ast.Stmt{}, A...), B...), e)
	if len(targets) == 0 {
		g.fail(s, "if statement without any effect on outer variables")
	}
	var names []string
	for _, v := range targets {
		names = append(names, v.name)
	}
	cond := g.exprBool(e, s.Cond)
	var ends []*genv
	fin := gcont{f: func(eb *genv) {
		for _, v := range targets {
			g.noteRead(eb, s, v)
		}
		g.line(eb, tupleOf(names))
		ends = append(ends, eb)
	}}
	g.line(e, letPattern(names))
	e1 := e.indented()
	g.noFuel++
	g.pushGuard(e, targets)
	g.line(e1, "if "+cond+" then (")
	g.branch(A, e1.indented(), fin)
	g.line(e1, ") else (")
	g.branch(B, e1.indented(), fin)
	g.line(e1, ") in")
	g.popGuard()
	g.noFuel--
	if len(ends) != 2 {
		g.fail(s, "internal: join of %d paths", len(ends))
	}
	e.merge(ends[0], ends[1])
	for _, v := range targets {
		st := e.st[v]
		st.defined, st.destr = true, false
		if v.ptr {
			g.outSeen[v] = true
		}
	}
}

// ---- return ---------------------------------------------------------------

func (g *gtrans) returnStmt(s *ast.ReturnStmt, e *genv) {
	for l := g.loop; l != nil; l = l.parent {
		if l.kind != loopInfinite {
			g.fail(s, "return inside a loop that has a condition (unsupported: only `for { .. return .. }`)")
		}
	}
	n := len(g.closers)
	defer g.closeTo(e, n)
	if g.ptrRes != kNone {
		if len(s.Results) != 1 {
			g.fail(s, "return of a pointer needs one value")
		}
		x := unparen(s.Results[0])
		if isIdent(x, "nil") && e.lookup("nil") == nil {
			if g.loop != nil {
				g.fail(s, "return nil inside a loop (unsupported)")
			}
			for _, v := range g.outParams {
				if !e.st[v].initial {
					g.fail(s, "return nil after %s has been written (unsupported)", v.name)
				}
			}
			t := "None"
			if g.fuelled {
				t = "Done None"
			}
			g.line(e, t)
			return
		}
		// the returned pointer: a pointer parameter (possibly through a call chain), or a fresh value
		var lv *lval
		var val string
		switch x := x.(type) {
		case *ast.Ident:
			if v := e.lookup(x.Name); v != nil && v.ptr {
				lv = &lval{v: v}
			}
		case *ast.CallExpr:
			rs, alias := g.execCall(e, x)
			if alias != nil {
				lv = alias
			} else if len(rs) == 1 && rs[0].kind == g.ptrRes {
				val = rs[0].term
			}
		}
		if lv != nil && lv.v != nil && !lv.v.ptr && lv.v.kind == g.ptrRes && g.ptrRes == kBig {
			val, lv = g.readLval(e, s, lv), nil // a fresh object (new(big.Int) ..): returned as a value
		}
		switch {
		case lv != nil && lv.v != nil && lv.idx == "" && lv.v.ptr && lv.v.kind == g.ptrRes:
			// which pointer is returned is not part of the generated definition: it must be
			// the conventional one (the first pointer parameter of that type: the receiver
			// z of a *Element method, the destination res of ToBigInt(res))
			for _, pv := range g.pvars {
				if pv.ptr && pv.kind == g.ptrRes {
					if pv != lv.v {
						g.fail(s, "returns the pointer %s; the pointer result must be %s", lv.v.name, pv.name)
					}
					break
				}
			}
			if g.ptrResVal || (g.sum.retAlias != "" && g.sum.retAlias != lv.v.name) {
				g.fail(s, "returns %s here and something else elsewhere", lv.v.name)
			}
			g.sum.retAlias = lv.v.name
			g.emitResult(e, s, nil)
		case val != "":
			if g.sum.retAlias != "" {
				g.fail(s, "returns a fresh value here and %s elsewhere", g.sum.retAlias)
			}
			g.ptrResVal = true
			g.emitResult(e, s, []string{val})
		default:
			g.fail(s, "the returned pointer is neither one of the pointer parameters nor a value the translator understands")
		}
		return
	}
	if len(s.Results) == 0 {
		if len(g.resKinds) != 0 && len(g.named) == 0 {
			g.fail(s, "return without values")
		}
		g.emitResult(e, s, nil)
		return
	}
	if len(s.Results) != len(g.resKinds) {
		g.fail(s, "return with %d values, %d expected", len(s.Results), len(g.resKinds))
	}
	var vals []string
	for i, x := range s.Results {
		vals = append(vals, g.exprOfKind(e, x, g.resKinds[i]))
	}
	g.emitResult(e, s, vals)
}

// emitResult: final values of the written pointer parameters, then the results.
func (g *gtrans) emitResult(e *genv, at ast.Node, vals []string) {
	var parts []string
	for _, v := range g.outParams {
		g.noteRead(e, at, v)
		parts = append(parts, v.name)
	}
	if vals == nil {
		for _, v := range g.named {
			g.noteRead(e, at, v)
			vals = append(vals, v.name)
		}
	}
	parts = append(parts, vals...)
	if len(parts) == 0 {
		g.fail(at, "function writes nothing and returns nothing")
	}
	g.line(e, g.wrapResult(tupleOf(parts)))
}

package main

import (
	"fmt"
	"go/ast"
	"sort"
	"strings"
)

// gtrans translates one glue function.
type gtrans struct {
	gl  *glue
	p   *pkg
	fd  *ast.FuncDecl
	key string
	sum *gsum

	pvars     []*gv // receiver and parameters, Go order
	named     []*gv // named results
	resKinds  []gkind
	ptrRes    gkind // kElem / kBig: the function has a pointer result
	ptrResVal bool  // ... which is a fresh value (not one of the parameters)
	outParams []*gv // pointer parameters that are written, Go order
	fuelled   bool  // the result is wrapped in `fuelled`
	nilable   bool  // has `return nil`
	fuels     []string
	out       *strings.Builder
	aux       []string // auxiliary (loop) definitions, in order
	closers   []string // pending closers of opened matches
	nseq      int
	ntmp      int
	loopNo    map[*ast.ForStmt]int
	nloops    int
	loop      *loopCtx
	pure      int // > 0: inside the right operand of && / ||: no effects allowed
	noFuel    int // > 0: inside a joined `if`: nothing that needs fuel may be emitted
	dry       int // > 0: analysis run: output is discarded, no auxiliary definition is recorded

	inSeen, outSeen map[*gv]bool
	liveIn          map[*gv]bool
	sawFuel         bool
	guards          []*writeGuard
}

func newGtrans(gl *glue, key string, fd *ast.FuncDecl, fuelled bool) *gtrans {
	return &gtrans{gl: gl, p: gl.p, fd: fd, key: key, fuelled: fuelled,
		sum: &gsum{key: key, coqName: coqNameOf(key)}, out: &strings.Builder{},
		loopNo: map[*ast.ForStmt]int{}, inSeen: map[*gv]bool{}, outSeen: map[*gv]bool{}}
}

func (g *gtrans) fail(at ast.Node, format string, args ...interface{}) {
	where := ""
	if at != nil {
		where = g.p.pos(at) + ": "
	}
	panic(transErr{where + g.key + ": " + fmt.Sprintf(format, args...)})
}

func (g *gtrans) line(e *genv, s string) {
	g.out.WriteString(e.ind + strings.TrimRight(s, " ") + "\n")
}

func (g *gtrans) tmp(prefix string) string {
	g.ntmp++
	return prefix + "_" + itoa(g.ntmp)
}

// useFuel: the code being emitted passes the fuel argument `name`.
func (g *gtrans) useFuel(at ast.Node, name string) {
	g.sawFuel = true
	if g.noFuel > 0 {
		g.fail(at, "a loop or call that runs on fuel inside an `if` whose branches are joined (unsupported)")
	}
	if !g.fuelled {
		panic(restart{})
	}
	for l := g.loop; l != nil; l = l.parent {
		l.addFuel(name)
	}
	for _, f := range g.fuels {
		if f == name {
			return
		}
	}
	g.fuels = append(g.fuels, name)
}

// kindOfType: Go type expression -> kind (ptr: it is a pointer to that kind).
func (g *gtrans) kindOfType(t ast.Expr) (k gkind, ptr bool, arrLen int) {
	switch t := t.(type) {
	case *ast.StarExpr:
		k, _, _ = g.kindOfType(t.X)
		if k == kElem || k == kBig {
			return k, true, 0
		}
		return kNone, false, 0
	case *ast.Ident:
		switch t.Name {
		case "Element":
			return kElem, false, 0
		case "uint64":
			return kU64, false, 0
		case "int":
			return kInt, false, 0
		case "uint":
			return kUint, false, 0
		case "bool":
			return kBool, false, 0
		}
	case *ast.SelectorExpr:
		if isIdent(t.X, "big") && t.Sel.Name == "Int" {
			return kBig, false, 0
		}
		if isIdent(t.X, "big") && t.Sel.Name == "Word" {
			return kUint, false, 0
		}
	case *ast.ArrayType:
		ek, eptr, _ := g.kindOfType(t.Elt)
		if t.Len == nil && !eptr {
			switch {
			case ek == kElem:
				return kElems, false, 0
			case ek == kBool:
				return kBools, false, 0
			case isIdent(t.Elt, "byte"):
				return kBytes, false, 0
			}
		}
		if t.Len != nil && isIdent(t.Elt, "byte") {
			if n, ok := g.gl.constInt(t.Len); ok && n > 0 && n <= 4096 {
				return kBytes, false, n
			}
		}
	}
	return kNone, false, 0
}

func (g *gtrans) signature() {
	fd := g.fd
	add := func(f *ast.Field) {
		if len(f.Names) == 0 {
			g.fail(f, "unnamed parameter")
		}
		for _, id := range f.Names {
			k, ptr, n := g.kindOfType(f.Type)
			if k == kNone {
				g.fail(f, "parameter %s has an unsupported type", id.Name)
			}
			v := &gv{name: id.Name, kind: k, ptr: ptr, param: true, arrLen: n}
			g.pvars = append(g.pvars, v)
			g.sum.params = append(g.sum.params, gparam{name: v.name, kind: k, ptr: ptr})
		}
	}
	if fd.Recv != nil {
		for _, f := range fd.Recv.List {
			add(f)
		}
	}
	for _, f := range fd.Type.Params.List {
		add(f)
	}
	if fd.Type.Results == nil {
		return
	}
	for _, f := range fd.Type.Results.List {
		k, ptr, n := g.kindOfType(f.Type)
		if k == kNone {
			g.fail(f, "unsupported result type")
		}
		if ptr {
			if len(fd.Type.Results.List) != 1 || len(f.Names) != 0 {
				g.fail(f, "a pointer result must be the only, unnamed result")
			}
			g.ptrRes = k
			return
		}
		if len(f.Names) == 0 {
			g.resKinds = append(g.resKinds, k)
		}
		for _, id := range f.Names {
			g.resKinds = append(g.resKinds, k)
			g.named = append(g.named, &gv{name: id.Name, kind: k, arrLen: n})
		}
	}
	if len(g.named) != 0 && len(g.named) != len(g.resKinds) {
		g.fail(fd, "mixed named and unnamed results")
	}
}

func hasReturnNil(body *ast.BlockStmt) bool {
	found := false
	ast.Inspect(body, func(n ast.Node) bool {
		if r, ok := n.(*ast.ReturnStmt); ok && len(r.Results) == 1 && isIdent(unparen(r.Results[0]), "nil") {
			found = true
		}
		return true
	})
	return found
}

// run translates the function; false: redo with fuelled = true.
func (g *gtrans) run() (ok bool) {
	defer func() {
		if r := recover(); r != nil {
			if _, is := r.(restart); is {
				ok = false
				return
			}
			panic(r)
		}
	}()
	g.signature()
	g.nilable = hasReturnNil(g.fd.Body)
	e := newGenv()
	for _, v := range g.pvars {
		g.declare(e, g.fd, v, true)
		e.st[v].initial = v.ptr
	}
	for _, v := range g.named {
		g.declare(e, g.fd, v, true)
	}
	e.push()
	for _, v := range g.assignedOuter(g.fd.Body.List, e) {
		if v.ptr {
			g.outParams = append(g.outParams, v)
		}
	}
	for _, v := range g.named { // named results start at their zero value
		g.line(e, "let "+v.name+" := "+g.zeroOf(v.kind, v.arrLen)+" in")
	}
	g.stmts(g.fd.Body.List, e, gcont{tail: true, f: func(e2 *genv) {
		if (len(g.resKinds) != 0 && len(g.named) == 0) || g.ptrRes != kNone {
			g.fail(g.fd, "control reaches the end of a function with unnamed results")
		}
		g.emitResult(e2, g.fd, nil)
	}})
	if len(g.closers) != 0 {
		g.fail(g.fd, "internal: unclosed match")
	}
	g.finish()
	return true
}

// resultParts: Coq types of the components of the result.
func (g *gtrans) resultType() string {
	var ts []string
	for _, v := range g.outParams {
		ts = append(ts, v.kind.coq())
	}
	rk := g.resKinds
	if g.ptrRes != kNone && g.ptrResVal {
		rk = []gkind{g.ptrRes}
	}
	for _, k := range rk {
		ts = append(ts, k.coq())
	}
	if len(ts) == 0 {
		g.fail(g.fd, "function writes nothing and returns nothing")
	}
	t := strings.Join(ts, " * ")
	if g.nilable {
		t = "option (" + t + ")"
	}
	if g.fuelled {
		t = "fuelled (" + t + ")"
	}
	return t
}

// wrapResult: the value of the function for the result tuple t.
func (g *gtrans) wrapResult(t string) string {
	if g.nilable {
		t = app("Some", t)
	}
	if g.fuelled {
		t = app("Done", t)
	}
	return t
}

func (g *gtrans) finish() {
	s := g.sum
	for i := range s.params {
		pa := &s.params[i]
		v := g.pvars[i]
		pa.in = !v.ptr || g.inSeen[v]
		for _, o := range g.outParams {
			if o == v {
				pa.out = true
			}
		}
		if g.outSeen[v] && !pa.out {
			g.fail(g.fd, "internal: write to %s missed by the pre-scan", v.name)
		}
	}
	s.results = g.resKinds
	if g.ptrRes != kNone && g.ptrResVal {
		s.results = []gkind{g.ptrRes}
	}
	g.fuels = sortFuels(g.fuels)
	s.nilable, s.fuels = g.nilable, g.fuels
	var b strings.Builder
	pos := g.p.fset.Position(g.fd.Pos())
	for _, a := range g.aux {
		b.WriteString(a + "\n")
	}
	fmt.Fprintf(&b, "(* %s/%s:%d  func %s *)\n", g.p.cfg.pkgDir, shortName(pos.Filename), pos.Line, g.key)
	b.WriteString("Definition " + s.coqName)
	for _, f := range g.fuels {
		b.WriteString(" (" + f + " : nat)")
	}
	for _, pa := range s.params {
		if pa.in {
			b.WriteString(" (" + pa.name + " : " + pa.kind.coq() + ")")
		}
	}
	b.WriteString(" : " + g.resultType() + " :=\n" + strings.TrimRight(g.out.String(), "\n") + ".\n")
	s.text = b.String()
}

// sortFuels: the function's own loops first (fuel1, fuel2, ..), then the
// fuels of its callees in order of first use.
func sortFuels(fs []string) []string {
	var own, other []string
	for _, f := range fs {
		if strings.HasPrefix(f, "fuel_") {
			other = append(other, f)
		} else {
			own = append(own, f)
		}
	}
	sort.Slice(own, func(i, j int) bool { return atoi(own[i][4:]) < atoi(own[j][4:]) })
	return append(own, other...)
}

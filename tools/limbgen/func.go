package main

import (
	"fmt"
	"go/ast"
	"strings"
)

type param struct {
	name, typ string // typ: "elem" (a *Element), "uint64", "uint8", "bool"
}

// summary is what callers need to know about a translated function.
type summary struct {
	key, coqName string
	params       []param         // receiver first, Go order
	isIn, isOut  map[string]bool // *Element parameters read / written
	results      []string        // scalar result types
	retAlias     string          // *Element result: the parameter it is
	noalias      [][2]string
	fragmented   bool // contains a loop: emitted as fragments, cannot be called
	text         string
	frag         *fragInfo // fragmented: what the glue translator needs (see gfrag.go)
}

// fragInfo describes the fragments of a function with the loop shape of
// loops.go: state variables at the head of the outer loop, number of inner
// loops, and for every fragment the read-only variables it takes after the state.
type fragInfo struct {
	stateNames, stateTypes []string
	inner                  int
	ro                     map[string][]param // fragment name -> read-only parameters
}

func (s *summary) assumesDistinct(a, b string) bool {
	for _, pr := range s.noalias {
		if (pr[0] == a && pr[1] == b) || (pr[0] == b && pr[1] == a) {
			return true
		}
	}
	return false
}

// ftrans translates one function (two passes over its body).
type ftrans struct {
	p        *pkg
	fd       *ast.FuncDecl
	sum      *summary
	pvars    []*gvar // parameters, Go order
	named    []*gvar // named scalar results
	ptrRes   bool    // has a *Element result
	outSet   map[*gvar]bool
	inSeen   map[*gvar]bool
	emitting bool
	out      *strings.Builder
	nseq     int
	// loops (see loops.go)
	fragmented bool     // the body contains a loop: only fragments are emitted
	inFragment bool     // currently inside a loop fragment
	frags      []string // texts of the loop fragments
	stateType  string   // Coq type of the loop state
}

func coqNameOf(key string) string {
	if i := strings.Index(key, "."); i >= 0 {
		return key[:i] + "_" + key[i+1:]
	}
	return strings.TrimLeft(key, "_")
}

func (p *pkg) scalarType(t ast.Expr) string {
	if id, ok := t.(*ast.Ident); ok {
		switch id.Name {
		case "uint64", "uint8", "bool":
			return id.Name
		}
	}
	return ""
}

func isPtrElement(t ast.Expr) bool {
	st, ok := t.(*ast.StarExpr)
	return ok && isIdent(st.X, "Element")
}

// translate makes sure function `key` is translated and returns its summary.
func (p *pkg) translate(key string, at ast.Node) *summary {
	if s, ok := p.done[key]; ok {
		return s
	}
	where := "root list"
	if at != nil {
		where = p.pos(at)
	}
	if p.inprog[key] {
		fatalf("%s: recursive call of %s (unsupported)", where, key)
	}
	fd, ok := p.funcs[key]
	if !ok || fd.Body == nil {
		fatalf("%s: function %s not found in %v of %s (or it has no Go body)", where, key, p.cfg.files, p.cfg.pkgDir)
	}
	p.inprog[key] = true
	ft := &ftrans{p: p, fd: fd}
	ft.sum = &summary{key: key, coqName: coqNameOf(key), isIn: map[string]bool{}, isOut: map[string]bool{},
		noalias: p.cfg.noalias[key]}
	if other, dup := p.coqUsed[ft.sum.coqName]; dup {
		p.failAt(fd, "Coq name %s of %s already used by %s", ft.sum.coqName, key, other)
	}
	if coqReserved[ft.sum.coqName] {
		p.failAt(fd, "Coq name %s of %s is reserved", ft.sum.coqName, key)
	}
	ft.signature()
	ft.fragmented = containsLoop(fd.Body.List)
	ft.sum.fragmented = ft.fragmented
	// which pointer parameters are written: syntactic pre-scan
	e0 := ft.initialEnv(nil)
	ft.outSet = map[*gvar]bool{}
	for _, t := range ft.assignedIn(fd.Body.List, e0) {
		if t.v.ptrParam {
			ft.outSet[t.v] = true
		}
	}
	// pass 1: analysis only (every pointer parameter available)
	ft.inSeen = map[*gvar]bool{}
	ft.out = &strings.Builder{}
	ft.body(ft.initialEnv(nil))
	in1 := ft.inSeen
	// pass 2: emission with the final parameter list
	ft.inSeen = map[*gvar]bool{}
	ft.out = &strings.Builder{}
	ft.emitting = true
	ft.body(ft.initialEnv(in1))
	for _, v := range ft.pvars {
		if in1[v] != ft.inSeen[v] {
			p.failAt(fd, "internal: passes disagree on parameter %s of %s", v.name, key)
		}
		if v.ptrParam {
			ft.sum.isIn[v.name] = in1[v]
			ft.sum.isOut[v.name] = ft.outSet[v]
		}
	}
	ft.sum.text = ft.definition(ft.out.String())
	delete(p.inprog, key)
	p.done[key] = ft.sum
	p.coqUsed[ft.sum.coqName] = key
	p.order = append(p.order, key)
	return ft.sum
}

// signature reads receiver, parameters and results.
func (ft *ftrans) signature() {
	p, fd := ft.p, ft.fd
	add := func(f *ast.Field) {
		for _, id := range f.Names {
			v := &gvar{name: id.Name}
			switch {
			case isPtrElement(f.Type):
				v.typ, v.n, v.ptrParam = "elem", p.nlimbs, true
			case p.scalarType(f.Type) != "":
				v.typ = p.scalarType(f.Type)
			default:
				p.failAt(f, "%s: parameter %s has an unsupported type", ft.sum.key, id.Name)
			}
			ft.pvars = append(ft.pvars, v)
			ft.sum.params = append(ft.sum.params, param{v.name, v.typ})
		}
		if len(f.Names) == 0 {
			p.failAt(f, "%s: unnamed parameter", ft.sum.key)
		}
	}
	if fd.Recv != nil {
		for _, f := range fd.Recv.List {
			add(f)
		}
	}
	for _, f := range fd.Type.Params.List {
		add(f)
	}
	if fd.Type.Results == nil {
		return
	}
	for _, f := range fd.Type.Results.List {
		if isPtrElement(f.Type) {
			if len(fd.Type.Results.List) != 1 || len(f.Names) != 0 {
				p.failAt(f, "%s: a *Element result must be the only, unnamed result", ft.sum.key)
			}
			ft.ptrRes = true
			return
		}
		t := p.scalarType(f.Type)
		if t == "" || t == "uint8" {
			p.failAt(f, "%s: unsupported result type", ft.sum.key)
		}
		if len(f.Names) == 0 {
			ft.sum.results = append(ft.sum.results, t)
		}
		for _, id := range f.Names {
			ft.sum.results = append(ft.sum.results, t)
			ft.named = append(ft.named, &gvar{name: id.Name, typ: t})
		}
	}
	if len(ft.named) != 0 && len(ft.named) != len(ft.sum.results) {
		p.failAt(fd, "%s: mixed named and unnamed results", ft.sum.key)
	}
}

// initialEnv: in == nil: analysis pass, every pointer parameter is available
// as a whole value; otherwise only those in `in`.
func (ft *ftrans) initialEnv(in map[*gvar]bool) *env {
	e := newEnv(ft.p.nlimbs)
	for _, v := range ft.pvars {
		ft.declare(e, ft.fd, v)
		if v.ptrParam {
			s := e.st[v]
			s.whole = in == nil || in[v]
			for j := range s.init {
				s.init[j] = true
			}
		}
	}
	for _, v := range ft.named {
		ft.declare(e, ft.fd, v)
	}
	e.push()
	return e
}

func (ft *ftrans) line(e *env, s string) {
	ft.out.WriteString(e.ind + strings.TrimRight(s, " ") + "\n")
}

func (ft *ftrans) body(e *env) {
	for _, v := range ft.named { // named results start at their zero value
		ft.line(e, "let "+v.name+" := "+zeroOf(v.typ)+" in")
	}
	ft.stmts(ft.fd.Body.List, e, cont{tail: true, f: func(e *env) {
		if len(ft.sum.results) != 0 && len(ft.named) == 0 || ft.ptrRes {
			ft.p.failAt(ft.fd, "%s: control reaches the end of a function with unnamed results", ft.sum.key)
		}
		ft.result(e, nil)
	}})
}

func zeroOf(typ string) string {
	if typ == "bool" {
		return "false"
	}
	return "0"
}

func coqType(typ string) string {
	switch typ {
	case "elem":
		return "el"
	case "bool":
		return "bool"
	}
	return "Z"
}

// definition wraps the emitted body into a Coq Definition.
func (ft *ftrans) definition(body string) string {
	var b strings.Builder
	pos := ft.p.fset.Position(ft.fd.Pos())
	fmt.Fprintf(&b, "(* %s/%s:%d  func %s *)\n", ft.p.cfg.pkgDir, shortName(pos.Filename), pos.Line, ft.sum.key)
	for _, pr := range ft.sum.noalias {
		fmt.Fprintf(&b, "(* ASSUMPTION: the pointers %s and %s are distinct. *)\n", pr[0], pr[1])
	}
	name, rtype := ft.sum.coqName, ft.resultType()
	if ft.fragmented {
		fmt.Fprintf(&b, "(* This function contains a loop: it is translated to the fragments %s_pre,\n"+
			"   %s_loop<k>_cond/_body, %s_tail (see tools/limbgen/loops.go).\n   State at the head of the outer loop: %s *)\n",
			name, name, name, ft.stateType)
		name, rtype = name+"_pre", rtype+" + ("+ft.stateType+")"
	}
	b.WriteString("Definition " + name)
	for _, pa := range ft.sum.params {
		if pa.typ == "elem" && !ft.sum.isIn[pa.name] {
			continue
		}
		b.WriteString(" (" + pa.name + " : " + coqType(pa.typ) + ")")
	}
	b.WriteString(" : " + rtype + " :=\n")
	b.WriteString(strings.TrimRight(body, "\n") + ".\n")
	for _, f := range ft.frags {
		b.WriteString("\n" + f)
	}
	return b.String()
}

func shortName(path string) string {
	if i := strings.LastIndex(path, "/"); i >= 0 {
		return path[i+1:]
	}
	return path
}

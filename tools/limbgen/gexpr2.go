package main

import (
	"go/ast"
	"go/token"
)

// exprElem: an expression of type Element (a value).
func (g *gtrans) exprElem(e *genv, x ast.Expr) string {
	x = unparen(x)
	switch x := x.(type) {
	case *ast.Ident:
		if v := e.lookup(x.Name); v != nil {
			if v.kind != kElem {
				g.fail(x, "%s has type %s, an Element is needed", x.Name, v.kind)
			}
			g.noteRead(e, x, v)
			return v.name
		}
		if limbs, ok := g.p.globals[x.Name]; ok {
			return tupleOf(limbs)
		}
	case *ast.StarExpr:
		switch y := unparen(x.X).(type) {
		case *ast.Ident:
			if v := e.lookup(y.Name); v != nil && v.kind == kElem && v.ptr {
				g.noteRead(e, x, v)
				return v.name
			}
		case *ast.CallExpr:
			_, alias := g.execCall(e, y)
			if alias != nil && alias.v.kind == kElem {
				return g.readLval(e, x, alias)
			}
		}
		g.fail(x, "unsupported dereference")
	case *ast.IndexExpr:
		if id, ok := unparen(x.X).(*ast.Ident); ok {
			if v := e.lookup(id.Name); v != nil && v.kind == kElems {
				return g.readLval(e, x, &lval{v: v, idx: g.indexTerm(e, x.Index)})
			}
		}
	case *ast.CompositeLit:
		if !isIdent(x.Type, "Element") || len(x.Elts) > g.p.nlimbs {
			g.fail(x, "unsupported composite literal")
		}
		var parts []string
		for _, el := range x.Elts {
			if _, kv := el.(*ast.KeyValueExpr); kv {
				g.fail(el, "keyed composite literal (unsupported)")
			}
			parts = append(parts, g.exprOfKind(e, el, kU64))
		}
		for len(parts) < g.p.nlimbs {
			parts = append(parts, "0")
		}
		return tupleOf(parts)
	case *ast.CallExpr:
		rs, _ := g.execCall(e, x)
		if len(rs) == 1 && rs[0].kind == kElem {
			return rs[0].term
		}
		g.fail(x, "this call cannot be used as an Element value")
	}
	g.fail(x, "unsupported Element expression (%T)", x)
	return ""
}

// exprBig: an expression of type big.Int / *big.Int, as a value.
func (g *gtrans) exprBig(e *genv, x ast.Expr) string {
	x = unparen(x)
	switch x := x.(type) {
	case *ast.Ident:
		if v := e.lookup(x.Name); v != nil {
			if v.kind != kBig {
				g.fail(x, "%s has type %s, a big.Int is needed", x.Name, v.kind)
			}
			g.noteRead(e, x, v)
			return v.name
		}
		if c, ok := g.gl.cfg.bigGlobals[x.Name]; ok {
			return c
		}
	case *ast.UnaryExpr:
		if x.Op == token.AND {
			return g.exprBig(e, x.X)
		}
	case *ast.CallExpr:
		rs, alias := g.execCall(e, x)
		if alias != nil && alias.v.kind == kBig {
			return g.readLval(e, x, alias)
		}
		if len(rs) == 1 && rs[0].kind == kBig {
			return rs[0].term
		}
		g.fail(x, "this call cannot be used as a big.Int value")
	}
	g.fail(x, "unsupported big.Int expression (%T)", x)
	return ""
}

// exprBytes: []byte / [n]byte value.
func (g *gtrans) exprBytes(e *genv, x ast.Expr) string {
	x = unparen(x)
	switch x := x.(type) {
	case *ast.Ident:
		if v := e.lookup(x.Name); v != nil && v.kind == kBytes {
			g.noteRead(e, x, v)
			return v.name
		}
	case *ast.SliceExpr:
		if x.Low == nil && x.High == nil && !x.Slice3 {
			return g.exprBytes(e, x.X)
		}
	case *ast.CallExpr:
		rs, _ := g.execCall(e, x)
		if len(rs) == 1 && rs[0].kind == kBytes {
			return rs[0].term
		}
	}
	g.fail(x, "unsupported byte-slice expression (%T)", x)
	return ""
}

// exprList: []Element, []bool, []big.Word values.
func (g *gtrans) exprList(e *genv, x ast.Expr, want gkind) string {
	x = unparen(x)
	switch x := x.(type) {
	case *ast.Ident:
		if v := e.lookup(x.Name); v != nil && v.kind == want {
			g.noteRead(e, x, v)
			return v.name
		}
	case *ast.CallExpr:
		if isIdent(x.Fun, "make") && e.lookup("make") == nil && len(x.Args) == 2 {
			k, _, _ := g.kindOfType(x.Args[0])
			if k != want || (k != kElems && k != kBools) {
				g.fail(x, "unsupported make")
			}
			n, kn := g.exprInt(e, x.Args[1])
			if kn != kInt && kn != kUntyped {
				g.fail(x, "make: the length must be an int")
			}
			zero := "el_zero"
			if k == kBools {
				zero = "false"
			}
			return app("lmake", zero, n)
		}
		if sel, ok := x.Fun.(*ast.SelectorExpr); ok && want == kWords && sel.Sel.Name == "Bits" &&
			len(x.Args) == 0 && g.kindOf(e, sel.X) == kBig {
			return app("big_bits", g.exprBig(e, sel.X))
		}
		rs, _ := g.execCall(e, x)
		if len(rs) == 1 && rs[0].kind == want {
			return rs[0].term
		}
	}
	g.fail(x, "unsupported expression of type %s (%T)", want, x)
	return ""
}

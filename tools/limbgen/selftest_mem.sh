#!/bin/bash
# Mutation self-test of the MEMORY-LEVEL output of limbgen (Gen/FfMem.v,
# Gen/FfgMem.v) + Proofs/Ff{,g}MemEq.v: ALIASING mutants.
#
# Each mutant is ONE textual change inside one Go function that leaves the
# value-level reading unchanged (Gen/Ff{,g}Routines.v still equals the hand
# model: Proofs/Ff{,g}RoutinesEq.v compiles) but makes the Go code wrong for
# exactly one in-place calling pattern (z == x, or z == y).  For every mutant
#   1. limbgen WITHOUT flags: the syntactic pre-check must exit 1;
#   2. limbgen -noaliascheck: files are generated, the Coq lemmas decide;
#   3. Proofs/Ff{,g}MemEq.v is compiled in the scratch tree; every lemma whose
#      proof fails is recorded and (IN THE SCRATCH COPY ONLY) replaced by an
#      axiom of the same statement so that the run continues: the result is
#      the exact list of failing lemmas = the aliasing patterns that break.
# Scratch copies only (/tmp/lgmrepo, /tmp/lgmself); never touches $REPO or
# $VERIF/coq.     VERIF=/verif REPO=/repo tools/limbgen/selftest_mem.sh
set -u
export GOFLAGS=-mod=mod GOPROXY=off GOSUMDB=off GOTOOLCHAIN=local
V=${VERIF:-/verif}
REPO=${REPO:-/repo}
BIN=$V/_build/bin/limbgen
R=/tmp/lgmrepo
S=/tmp/lgmself
C=$V/coq
GEN="FfRoutines FfgRoutines FfMem FfgMem"

setup_tree() {
  rm -rf $S; mkdir -p $S/coq/Gen $S/coq/Proofs
  ln -s $C/Lib $S/coq/Lib; ln -s $C/Model $S/coq/Model
  # limbgen outputs are never linked (limbgen would write through the link)
  for f in $C/Gen/*; do
    case $(basename $f) in FfRoutines.*|FfgRoutines.*|FfGlue.*|FfgGlue.*|FfMem.*|FfgMem.*) ;; *) ln -s $f $S/coq/Gen/ ;; esac
  done
  cp $C/Proofs/FfRoutinesEq.v $C/Proofs/FfgRoutinesEq.v $C/Proofs/FfMemEq.v $C/Proofs/FfgMemEq.v $S/coq/Proofs/
}

mutate() {
  python3 - "$R/$1" "$2" "$3" "$4" <<'EOF'
import sys
path, hdr, old, new = sys.argv[1:5]
s = open(path).read()
i = s.index(hdr)
j = s.index(old, i)
end = s.find("\nfunc ", i + 1)
if end < 0:
    end = len(s)
assert j < end, "pattern not inside the function"
s = s[:j] + new + s[j+len(old):]
open(path, "w").write(s)
EOF
  [ $? -eq 0 ] || { echo "selftest: mutation of $1 failed"; exit 1; }
}

# failing_lemmas <file.v>: compile; while it fails, record the lemma around the
# error line and turn it into an axiom (scratch copy only).  Prints the names.
failing_lemmas() {
  python3 - "$1" <<'EOF'
import re, subprocess, sys
path = sys.argv[1]
failed = []
for _ in range(40):
    r = subprocess.run(['timeout', '900', 'coqc', '-Q', '.', 'Verif', path], capture_output=True, text=True)
    if r.returncode == 0:
        break
    m = re.search(r'line (\d+)', r.stderr)
    if not m:
        failed.append('?? ' + r.stderr.strip()[:200]); break
    n = int(m.group(1))
    lines = open(path).read().split('\n')
    start = max(i for i in range(n) if re.match(r'(Lemma|Theorem|Example) ', lines[i]))
    proof = next(i for i in range(start, len(lines)) if lines[i].startswith('Proof'))
    end = next(i for i in range(max(proof, n - 1), len(lines)) if 'Qed.' in lines[i])
    name = re.match(r'\w+ (\w+)', lines[start]).group(1)
    failed.append(name)
    stmt = lines[start:proof]
    stmt[0] = re.sub(r'^(Lemma|Theorem|Example)', 'Axiom', stmt[0])
    lines[start:end + 1] = stmt
    open(path, 'w').write('\n'.join(lines))
print(' '.join(failed) if failed else 'none')
EOF
}

run() { # label, stem (Ff / Ffg)
  local label="$1" stem="$2"
  echo "== $label"
  $BIN $R $S > $S/gen.out 2> $S/gen.err; local rc=$?
  echo "   limbgen (pre-check on):   exit $rc $( [ $rc -eq 1 ] && head -1 $S/gen.err | sed 's/.*ALIASING/ALIASING/' | cut -c1-110)"
  $BIN -noaliascheck $R $S > $S/gen.out 2> $S/gen.err; rc=$?
  if [ $rc -ne 0 ] && [ $rc -ne 3 ]; then echo "   limbgen -noaliascheck: EXIT $rc -- $(grep -m1 ERROR $S/gen.err)"; return; fi
  echo "   limbgen -noaliascheck:    exit $rc"
  for g in ${stem}Routines ${stem}Mem; do
    if diff -q $C/Gen/$g.v $S/coq/Gen/$g.v >/dev/null; then echo "   generated $g.v: UNCHANGED"
    else echo "   generated $g.v: changed ($(diff $C/Gen/$g.v $S/coq/Gen/$g.v | grep -c '^[<>]') diff lines)"; fi
  done
  ( cd $S/coq
    for g in $GEN; do
      timeout 600 coqc -Q . Verif Gen/$g.v > /dev/null 2> $S/err.txt || { echo "   Gen/$g.v: FAILS TO COMPILE: $(grep -m1 -A3 Error $S/err.txt | tr '\n' ' ')"; exit; }
    done
    if timeout 900 coqc -Q . Verif Proofs/${stem}RoutinesEq.v > /dev/null 2> $S/err.txt; then
      echo "   Proofs/${stem}RoutinesEq.v (value level = hand model): COMPILES"
    else
      echo "   Proofs/${stem}RoutinesEq.v: FAILS (the mutant is not value-preserving): $(grep -A2 Error $S/err.txt | tr '\n' ' ' | cut -c1-160)"
    fi
    local t0=$(date +%s)
    echo "   Proofs/${stem}MemEq.v: failing lemmas: $(failing_lemmas Proofs/${stem}MemEq.v)   ($(( $(date +%s) - t0 ))s)" )
}

fresh() { rm -rf $R; cp -r $REPO $R; setup_tree; }

fresh
run "baseline: unmodified copy (ff)" Ff
run "baseline: unmodified copy (ffg)" Ffg

fresh
mutate ff/element.go "func _addGeneric(" "	z[0], carry = bits.Add64(x[0], y[0], 0)
" "	tmp := x[0]
	z[0] = tmp
	z[0], carry = bits.Add64(tmp, y[0], 0)
"
run "(M1) ff _addGeneric: z[0] written (dead store) before y[0] is read -- wrong iff z == y != x" Ff

fresh
mutate ff/element.go "func _negGeneric(" "	z[1], borrow = bits.Sub64(2896914383306846353, x[1], borrow)
" "	z[1] = 0
	z[1], borrow = bits.Sub64(2896914383306846353, x[1], borrow)
"
run "(M2) ff _negGeneric: x[1] read after z[1] was written (dead store z[1] = 0) -- wrong iff z == x" Ff

fresh
mutate ff/element.go "func _mulGeneric(" "		v := x[3]
" "		v := x[3]
		z[3] = v
"
run "(M3) ff _mulGeneric: dead store z[3] = x[3] at the start of the last round, y[3] read later -- wrong iff z == y != x" Ff

fresh
mutate ff/element.go "func _subGeneric(" "	z[2], b = bits.Sub64(x[2], y[2], b)
" "	z[2] = y[2]
	z[2], b = bits.Sub64(x[2], y[2], b)
"
run "(M4) ff _subGeneric: dead store z[2] = y[2] before x[2] is read -- wrong iff z == x != y" Ff

fresh
mutate ffg/element.go "func _subGeneric(" "	z[0], b = bits.Sub64(x[0], y[0], 0)
" "	z[0] = y[0]
	z[0], b = bits.Sub64(x[0], y[0], 0)
"
run "(M5) ffg _subGeneric: dead store z[0] = y[0] before x[0] is read -- wrong iff z == x != y" Ffg

fresh
mutate ffg/element.go "func _mulGeneric(" "	C, t[0] = bits.Mul64(y[0], x[0])
" "	z[0] = y[0]
	C, t[0] = bits.Mul64(y[0], x[0])
"
run "(M6) ffg _mulGeneric: dead store z[0] = y[0] before x[0] is read -- wrong iff z == x != y" Ffg

echo
echo "---- controls: alias-safe rewrites (everything must still compile) ----"
fresh
mutate ff/element.go "func _addGeneric(" "	z[0], carry = bits.Add64(x[0], y[0], 0)
" "	tmp := y[0]
	z[0], carry = bits.Add64(x[0], tmp, 0)
"
run "(K1) ff _addGeneric: y[0] read into a temporary first (benign)" Ff

fresh
mutate ff/element.go "func _doubleGeneric(" "	var carry uint64
" "	var carry uint64
	tmp := x[3]
"
mutate ff/element.go "func _doubleGeneric(" "bits.Add64(x[3], x[3], carry)" "bits.Add64(tmp, tmp, carry)"
run "(K2) ff _doubleGeneric: x[3] read into a temporary before any write (benign)" Ff

rm -rf $R $S

package main

import (
	"go/ast"
	"go/token"
	"strings"
)

func paren(s string) string {
	if strings.ContainsAny(s, " \n") && !(strings.HasPrefix(s, "(") && balancedOuter(s)) {
		return "(" + s + ")"
	}
	return s
}

// balancedOuter: s starts with "(" and that parenthesis closes at the end.
func balancedOuter(s string) bool {
	d := 0
	for i, c := range s {
		switch c {
		case '(':
			d++
		case ')':
			d--
			if d == 0 && i != len(s)-1 {
				return false
			}
		}
	}
	return d == 0
}

func app(f string, args ...string) string {
	for _, a := range args {
		f += " " + paren(a)
	}
	return f
}

func unparen(x ast.Expr) ast.Expr {
	for {
		p, ok := x.(*ast.ParenExpr)
		if !ok {
			return x
		}
		x = p.X
	}
}

// exprU translates a uint64-valued expression.
func (ft *ftrans) exprU(e *env, x ast.Expr) string {
	p := ft.p
	x = unparen(x)
	if lit, ok := p.litU64(x); ok {
		return lit
	}
	if _, isConst, inRange := constVal(x); isConst && !inRange {
		// Go computes constant expressions exactly; the word operations emitted below would wrap
		p.failAt(x, "%s: constant expression with an intermediate value outside 0 .. 2^64-1 (Go evaluates it exactly)", ft.sum.key)
	}
	switch x := x.(type) {
	case *ast.Ident:
		v := e.lookup(x.Name)
		if v == nil {
			p.failAt(x, "%s: unknown identifier %s in a uint64 expression", ft.sum.key, x.Name)
		}
		if v.typ != "uint64" {
			p.failAt(x, "%s: %s has type %s, a uint64 is needed", ft.sum.key, x.Name, v.typ)
		}
		ft.noteScalarRead(e, v)
		return v.name
	case *ast.IndexExpr:
		v, j, _ := ft.limbRef(e, x)
		return ft.readLimb(e, x, v, j)
	case *ast.BinaryExpr:
		switch x.Op {
		case token.MUL:
			a := ft.exprU(e, x.X)
			return app("wmul", a, ft.exprU(e, x.Y))
		case token.ADD, token.SUB:
			// wrapping uint64 arithmetic: the low word of bits.Add64 / bits.Sub64 with carry 0
			a := ft.exprU(e, x.X)
			f := "add64"
			if x.Op == token.SUB {
				f = "sub64"
			}
			return "fst (" + app(f, a, ft.exprU(e, x.Y)) + " 0)"
		case token.OR:
			a := ft.exprU(e, x.X)
			return app("or64", a, ft.exprU(e, x.Y))
		case token.AND:
			a := ft.exprU(e, x.X)
			return app("and64", a, ft.exprU(e, x.Y))
		case token.SHR, token.SHL:
			a := ft.exprU(e, x.X)
			k, ok := p.litU64(unparen(x.Y))
			if !ok || atoi(k) < 0 || atoi(k) > 63 {
				p.failAt(x, "%s: shift count is not a literal in 0..63", ft.sum.key)
			}
			if x.Op == token.SHR {
				return app("shr64", a, k)
			}
			return app("shl64", a, k)
		}
		p.failAt(x, "%s: unsupported uint64 operator %s", ft.sum.key, x.Op)
	case *ast.CallExpr:
		if isIdent(x.Fun, "uint64") && len(x.Args) == 1 {
			return ft.convU64(e, x.Args[0])
		}
		ci := ft.resolveCall(e, x)
		return ft.pureCall(e, ci, "uint64")
	}
	p.failAt(x, "%s: unsupported uint64 expression (%T)", ft.sum.key, x)
	return ""
}

// convU64: uint64(x); value preserving for uint8 and uint64 operands only.
func (ft *ftrans) convU64(e *env, x ast.Expr) string {
	x = unparen(x)
	if id, ok := x.(*ast.Ident); ok {
		if v := e.lookup(id.Name); v != nil && v.typ == "uint8" {
			ft.noteScalarRead(e, v)
			return v.name
		}
	}
	return ft.exprU(e, x)
}

var cmpOps = map[token.Token]string{
	token.EQL: "Z.eqb", token.LSS: "Z.ltb", token.LEQ: "Z.leb",
	token.GTR: "Z.gtb", token.GEQ: "Z.geb",
}

// exprB translates a bool-valued expression, keeping its syntactic structure.
func (ft *ftrans) exprB(e *env, x ast.Expr) string {
	p := ft.p
	x = unparen(x)
	switch x := x.(type) {
	case *ast.Ident:
		if x.Name == "true" || x.Name == "false" {
			if e.lookup(x.Name) == nil {
				return x.Name
			}
		}
		v := e.lookup(x.Name)
		if v == nil || v.typ != "bool" {
			p.failAt(x, "%s: %s is not a bool variable", ft.sum.key, x.Name)
		}
		ft.noteScalarRead(e, v)
		return v.name
	case *ast.UnaryExpr:
		if x.Op == token.NOT {
			return app("negb", ft.exprB(e, x.X))
		}
	case *ast.BinaryExpr:
		switch x.Op {
		case token.LAND:
			a := ft.exprB(e, x.X)
			return app("andb", a, ft.exprB(e, x.Y))
		case token.LOR:
			a := ft.exprB(e, x.X)
			return app("orb", a, ft.exprB(e, x.Y))
		case token.NEQ:
			a := ft.exprU(e, x.X)
			return app("negb", app("Z.eqb", a, ft.exprU(e, x.Y)))
		}
		if f, ok := cmpOps[x.Op]; ok {
			a := ft.exprU(e, x.X)
			return app(f, a, ft.exprU(e, x.Y))
		}
		p.failAt(x, "%s: unsupported bool operator %s", ft.sum.key, x.Op)
	case *ast.CallExpr:
		ci := ft.resolveCall(e, x)
		return ft.pureCall(e, ci, "bool")
	}
	p.failAt(x, "%s: unsupported bool expression (%T)", ft.sum.key, x)
	return ""
}

// isBoolExpr: syntactic test used for `x := <expr>` and `return <expr>`.
func (ft *ftrans) isBoolExpr(e *env, x ast.Expr) bool {
	x = unparen(x)
	switch x := x.(type) {
	case *ast.Ident:
		if x.Name == "true" || x.Name == "false" {
			return true
		}
		v := e.lookup(x.Name)
		return v != nil && v.typ == "bool"
	case *ast.UnaryExpr:
		return x.Op == token.NOT
	case *ast.BinaryExpr:
		switch x.Op {
		case token.LAND, token.LOR, token.EQL, token.NEQ, token.LSS, token.LEQ, token.GTR, token.GEQ:
			return true
		}
	case *ast.CallExpr:
		if isIdent(x.Fun, "uint64") {
			return false
		}
		ci := ft.resolveCall(e, x)
		return len(ci.resultTypes()) == 1 && ci.resultTypes()[0] == "bool"
	}
	return false
}

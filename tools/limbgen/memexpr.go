package main

import (
	"go/ast"
	"go/token"
	"strconv"
)

// limbOf parses x[i] (literal index).  Result: the Coq term of the object
// (elem = true: a load / store on the store) or the let-bound limb name of a
// local scalar array (elem = false).
func (mt *mtrans) limbOf(x *ast.IndexExpr) (obj string, j int, elem, global bool) {
	id, ok := unparen(x.X).(*ast.Ident)
	if !ok {
		mt.fail(x, "indexing of something that is not a variable")
	}
	lit, ok := mt.p.litU64(x.Index)
	if !ok {
		mt.fail(x, "index of %s is not an integer literal", id.Name)
	}
	j = atoi(lit)
	v := mt.lookup(id.Name)
	if v == nil {
		if _, isG := mt.p.globals[id.Name]; isG && j >= 0 && j < mt.p.nlimbs {
			mt.ms.globals[id.Name] = true
			return "g_" + id.Name, j, true, true
		}
		mt.fail(x, "unknown variable %s", id.Name)
	}
	switch v.kind {
	case "ptr", "loc":
		if j < 0 || j >= mt.p.nlimbs {
			mt.fail(x, "index %d out of range for %s", j, id.Name)
		}
		return v.name, j, true, false
	case "arr":
		if j < 0 || j >= v.n {
			mt.fail(x, "index %d out of range for %s", j, id.Name)
		}
		return v.name + strconv.Itoa(j), j, false, false
	}
	mt.fail(x, "%s is not an array", id.Name)
	return
}

func (mt *mtrans) exprU(x ast.Expr) string {
	x = unparen(x)
	if lit, ok := mt.p.litU64(x); ok {
		return lit
	}
	switch x := x.(type) {
	case *ast.Ident:
		v := mt.lookup(x.Name)
		if v == nil || v.kind != "uint64" {
			mt.fail(x, "%s is not a uint64 variable", x.Name)
		}
		return v.name
	case *ast.IndexExpr:
		obj, j, elem, _ := mt.limbOf(x)
		if !elem {
			return obj
		}
		return app("load", memVar, obj, strconv.Itoa(j))
	case *ast.BinaryExpr:
		f := map[token.Token]string{token.MUL: "wmul", token.OR: "or64", token.AND: "and64"}[x.Op]
		if f != "" {
			a := mt.exprU(x.X)
			return app(f, a, mt.exprU(x.Y))
		}
		if x.Op == token.ADD || x.Op == token.SUB {
			a := mt.exprU(x.X)
			g := "add64"
			if x.Op == token.SUB {
				g = "sub64"
			}
			return "fst (" + app(g, a, mt.exprU(x.Y)) + " 0)"
		}
		if x.Op == token.SHR || x.Op == token.SHL {
			a := mt.exprU(x.X)
			k, ok := mt.p.litU64(unparen(x.Y))
			if !ok || atoi(k) < 0 || atoi(k) > 63 {
				mt.fail(x, "shift count is not a literal in 0..63")
			}
			if x.Op == token.SHR {
				return app("shr64", a, k)
			}
			return app("shl64", a, k)
		}
		mt.fail(x, "unsupported uint64 operator %s", x.Op)
	case *ast.CallExpr:
		if isIdent(x.Fun, "uint64") && len(x.Args) == 1 {
			a := unparen(x.Args[0])
			if id, ok := a.(*ast.Ident); ok {
				if v := mt.lookup(id.Name); v != nil && v.kind == "uint8" {
					return v.name
				}
			}
			return mt.exprU(a)
		}
		return mt.pureCall(mt.resolve(x), "uint64")
	}
	mt.fail(x, "unsupported uint64 expression (%T)", x)
	return ""
}

func (mt *mtrans) exprB(x ast.Expr) string {
	x = unparen(x)
	switch x := x.(type) {
	case *ast.Ident:
		if (x.Name == "true" || x.Name == "false") && mt.lookup(x.Name) == nil {
			return x.Name
		}
		v := mt.lookup(x.Name)
		if v == nil || v.kind != "bool" {
			mt.fail(x, "%s is not a bool variable", x.Name)
		}
		return v.name
	case *ast.UnaryExpr:
		if x.Op == token.NOT {
			return app("negb", mt.exprB(x.X))
		}
	case *ast.BinaryExpr:
		switch x.Op {
		case token.LAND:
			a := mt.exprB(x.X)
			return app("andb", a, mt.exprB(x.Y))
		case token.LOR:
			a := mt.exprB(x.X)
			return app("orb", a, mt.exprB(x.Y))
		case token.NEQ:
			a := mt.exprU(x.X)
			return app("negb", app("Z.eqb", a, mt.exprU(x.Y)))
		}
		if f, ok := cmpOps[x.Op]; ok {
			a := mt.exprU(x.X)
			return app(f, a, mt.exprU(x.Y))
		}
		mt.fail(x, "unsupported bool operator %s", x.Op)
	case *ast.CallExpr:
		return mt.pureCall(mt.resolve(x), "bool")
	}
	mt.fail(x, "unsupported bool expression (%T)", x)
	return ""
}

func (mt *mtrans) isBoolExpr(x ast.Expr) bool {
	x = unparen(x)
	switch x := x.(type) {
	case *ast.Ident:
		if x.Name == "true" || x.Name == "false" {
			return true
		}
		v := mt.lookup(x.Name)
		return v != nil && v.kind == "bool"
	case *ast.UnaryExpr:
		return x.Op == token.NOT
	case *ast.BinaryExpr:
		switch x.Op {
		case token.LAND, token.LOR, token.EQL, token.NEQ, token.LSS, token.LEQ, token.GTR, token.GEQ:
			return true
		}
	case *ast.CallExpr:
		if isIdent(x.Fun, "uint64") {
			return false
		}
		rts := mt.resolve(x).resultTypes()
		return len(rts) == 1 && rts[0] == "bool"
	}
	return false
}

// composite: Element{a, b, ...}, missing limbs are zero.
func (mt *mtrans) composite(cl *ast.CompositeLit) string {
	if !isIdent(cl.Type, "Element") || len(cl.Elts) > mt.p.nlimbs {
		mt.fail(cl, "unsupported composite literal")
	}
	var parts []string
	for _, x := range cl.Elts {
		if _, kv := x.(*ast.KeyValueExpr); kv {
			mt.fail(x, "keyed composite literal")
		}
		parts = append(parts, mt.exprU(x))
	}
	for len(parts) < mt.p.nlimbs {
		parts = append(parts, "0")
	}
	return tupleOf(parts)
}

// wholeRhs: a right-hand side of type Element: Element{..} or *p (the
// current content of the object p).
func (mt *mtrans) wholeRhs(x ast.Expr) (string, bool) {
	switch x := unparen(x).(type) {
	case *ast.CompositeLit:
		return mt.composite(x), true
	case *ast.StarExpr:
		id, ok := unparen(x.X).(*ast.Ident)
		if !ok {
			mt.fail(x, "unsupported dereference")
		}
		v := mt.lookup(id.Name)
		if v == nil || v.kind != "ptr" {
			mt.fail(x, "*%s: not a pointer parameter", id.Name)
		}
		return app(memVar, v.name), true
	}
	return "", false
}

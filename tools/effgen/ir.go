package main

import (
	"fmt"
	"sort"
	"strings"
)

// Root kinds of the effect IR.
const (
	KParam = iota
	KGlobal
	KLocal
	KUnknown
)

// Root is an abstract location (see main.go for the meaning).
type Root struct {
	Kind int
	I    int    // parameter index / local number
	Name string // global name "pkg.Var"
}

func (r Root) key() string {
	switch r.Kind {
	case KParam:
		return fmt.Sprintf("1P%04d", r.I)
	case KGlobal:
		return "2G" + r.Name
	case KLocal:
		return fmt.Sprintf("3L%06d", r.I)
	}
	return "4U"
}

func (r Root) coq() string {
	switch r.Kind {
	case KParam:
		return fmt.Sprintf("RParam %d", r.I)
	case KGlobal:
		return fmt.Sprintf("RGlobal \"%s\"", r.Name)
	case KLocal:
		return fmt.Sprintf("RLocal %d", r.I)
	}
	return "RUnknown"
}

// RootSet is a set of roots keyed by Root.key().
type RootSet map[string]Root

func rs(roots ...Root) RootSet {
	s := RootSet{}
	for _, r := range roots {
		s[r.key()] = r
	}
	return s
}

func (s RootSet) addAll(o RootSet) bool {
	ch := false
	for k, r := range o {
		if _, ok := s[k]; !ok {
			s[k] = r
			ch = true
		}
	}
	return ch
}

func (s RootSet) copy() RootSet {
	c := RootSet{}
	c.addAll(s)
	return c
}

func (s RootSet) list() []Root {
	keys := make([]string, 0, len(s))
	for k := range s {
		keys = append(keys, k)
	}
	sort.Strings(keys)
	out := make([]Root, 0, len(keys))
	for _, k := range keys {
		out = append(out, s[k])
	}
	return out
}

func coqRoots(s []Root) string {
	parts := make([]string, len(s))
	for i, r := range s {
		parts[i] = r.coq()
	}
	return "[" + strings.Join(parts, "; ") + "]"
}

// Instr is one instruction of the flattened effect IR.
type Instr struct {
	Must  bool // executed on every path reaching the end of the body
	Op    string
	K     int
	Roots []Root
	Fld   string
	Fn    string
	Args  [][]Root
	Hint  []Root
}

func (in Instr) coq() string {
	m := "false"
	if in.Must {
		m = "true"
	}
	var op string
	switch in.Op {
	case "alloc":
		op = fmt.Sprintf("IAlloc %d", in.K)
	case "read":
		op = "IRead " + coqRoots(in.Roots)
	case "write":
		op = fmt.Sprintf("IWrite %s \"%s\"", coqRoots(in.Roots), in.Fld)
	case "ret":
		op = "IReturn " + coqRoots(in.Hint) + " " + coqRoots(in.Roots)
	case "call":
		as := make([]string, len(in.Args))
		for i, a := range in.Args {
			as[i] = coqRoots(a)
		}
		op = fmt.Sprintf("ICall \"%s\" [%s] %d %s", in.Fn,
			strings.Join(as, "; "), in.K, coqRoots(in.Hint))
	}
	return "(" + m + ", " + op + ")"
}

// Summary is what callers need to know about a translated function.
type Summary struct {
	Ret    RootSet         // non-local roots the result may alias
	Fresh  bool            // result may contain objects allocated by the callee
	Stores map[int]RootSet // param i's region may now hold these non-local roots
}

// Func is a translated function.
type Func struct {
	Name     string
	Exported bool
	IsInit   bool
	NParams  int
	Body     []Instr
	Sum      Summary
	RecvFlds []string // pointer-typed fields of the receiver's struct type
	ParamRef []bool   // parameter i can carry references
	ResT     []Type
	Variadic bool
}

package main

// pool.go: sync.Pool.  The signature table models pool.Get() as a FRESH
// allocation owned by the caller.  That is only true if (poolFresh)
//   - the pool is a package-level variable `var p = sync.Pool{New: func() .. {..}}`,
//   - its New function returns a fresh allocation and has no other effect
//     (analysed like a function body: no non-local root returned, no write to a
//     non-local root, no call),
//   - the variable and its New field are never assigned and its address is
//     never taken anywhere in the package (init functions included),
// and (checked at every Put, methods.go) only objects that are local to the
// calling function are ever Put.  Otherwise Get / Put are unknown calls.

import (
	"go/ast"
	"go/token"
)

// putEscapes: some object given to Put is returned by the function or stored
// in an object that is not local to it.
func (ft *FT) putEscapes() bool {
	if len(ft.putRoots) == 0 {
		return false
	}
	for k := range ft.putRoots {
		if _, ok := ft.retSet[k]; ok {
			return true
		}
	}
	for rk, flds := range ft.contains {
		if len(rk) >= 2 && rk[:2] == "3L" { // a local object (Root.key): fine unless it escapes itself
			if _, esc := ft.retSet[rk]; !esc {
				continue
			}
		}
		for _, s := range flds {
			for k := range ft.putRoots {
				if _, ok := s[k]; ok {
					return true
				}
			}
		}
	}
	return false
}

var poolMemo = map[string]bool{}

func (ft *FT) poolFresh(x ast.Expr) bool {
	pkKey, name := "", ""
	switch e := strip(x).(type) {
	case *ast.Ident:
		if e.Obj != nil && ft.vars[e.Obj] != nil {
			return false // a local pool
		}
		pkKey, name = ft.pk.Dir, e.Name
	case *ast.SelectorExpr:
		id, ok := e.X.(*ast.Ident)
		if !ok {
			return false
		}
		k, ok := ft.pkgAlias(id)
		if !ok {
			return false
		}
		pkKey, name = k, e.Sel.Name
	default:
		return false
	}
	key := pkKey + "." + name
	if r, ok := poolMemo[key]; ok {
		return r
	}
	poolMemo[key] = false // (recursion guard)
	r := poolFreshDecl(prog.Pkgs[pkKey], name)
	poolMemo[key] = r
	return r
}

func poolFreshDecl(p *Pkg, name string) bool {
	if p == nil {
		return false
	}
	var newFn *ast.FuncLit
	for _, vs := range p.VarDecl {
		for i, n := range vs.Names {
			if n.Name != name || len(vs.Values) != len(vs.Names) {
				continue
			}
			cl, ok := strip(vs.Values[i]).(*ast.CompositeLit)
			if !ok {
				return false
			}
			for _, el := range cl.Elts {
				kv, ok := el.(*ast.KeyValueExpr)
				if !ok {
					return false
				}
				if k, ok := kv.Key.(*ast.Ident); ok && k.Name == "New" {
					newFn, _ = strip(kv.Value).(*ast.FuncLit)
				}
			}
		}
	}
	if newFn == nil {
		return false
	}
	// never reassigned, address never taken
	bad := false
	rooted := func(e ast.Expr) bool {
		for {
			switch x := e.(type) {
			case *ast.ParenExpr:
				e = x.X
			case *ast.SelectorExpr:
				e = x.X
			case *ast.StarExpr:
				e = x.X
			case *ast.IndexExpr:
				e = x.X
			case *ast.Ident:
				return x.Name == name
			default:
				return false
			}
		}
	}
	for _, f := range p.Files {
		ast.Inspect(f, func(n ast.Node) bool {
			switch s := n.(type) {
			case *ast.AssignStmt:
				for _, l := range s.Lhs {
					if s.Tok != token.DEFINE && rooted(l) {
						bad = true
					}
				}
			case *ast.UnaryExpr:
				if s.Op == token.AND && rooted(s.X) {
					bad = true
				}
			}
			return true
		})
	}
	if bad {
		return false
	}
	// the New function: analysed like a function body
	fd := &ast.FuncDecl{Name: &ast.Ident{Name: "poolNew"}, Type: newFn.Type, Body: newFn.Body}
	f := translateFunc(p, p.Dir+"."+name+".New", fd, false)
	if len(f.Sum.Ret) != 0 || !f.Sum.Fresh {
		return false
	}
	for _, in := range f.Body {
		switch in.Op {
		case "call":
			return false
		case "write", "read", "ret":
			for _, r := range in.Roots {
				if r.Kind != KLocal {
					return false
				}
			}
		}
	}
	return true
}

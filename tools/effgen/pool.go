package main

// pool.go: sync.Pool.  The signature table models pool.Get() as a FRESH
// allocation owned by the caller.  That is only true if (poolFresh)
//   - the pool is a package-level variable `var p = sync.Pool{New: func() .. {..}}`,
//   - its New function returns a fresh allocation and has no other effect
//     (analysed like a function body: no non-local root returned, no write to a
//     non-local root, no call),
//   - the variable and its New field are never assigned and its address is
//     never taken anywhere in the package (init functions included),
// and (checked at every Put, methods.go) only objects that are local to the
// calling function are ever Put.  Otherwise Get / Put are unknown calls.

import (
	"go/ast"
	"go/token"
)

// putEscapes: some object given to Put is returned by the function or stored
// in an object that is not local to it.
func (ft *FT) putEscapes() bool {
	if len(ft.putRoots) == 0 {
		return false
	}
	for k := range ft.putRoots {
		if _, ok := ft.retSet[k]; ok {
			return true
		}
	}
	for rk, flds := range ft.contains {
		if len(rk) >= 2 && rk[:2] == "3L" { // a local object (Root.key): fine unless it escapes itself
			if _, esc := ft.retSet[rk]; !esc {
				continue
			}
		}
		for _, s := range flds {
			for k := range ft.putRoots {
				if _, ok := s[k]; ok {
					return true
				}
			}
		}
	}
	return false
}

var poolMemo = map[string]bool{}

func (ft *FT) poolFresh(x ast.Expr) bool {
	pkKey, name := "", ""
	switch e := strip(x).(type) {
	case *ast.Ident:
		if e.Obj != nil && ft.vars[e.Obj] != nil {
			return false // a local pool
		}
		pkKey, name = ft.pk.Dir, e.Name
	case *ast.SelectorExpr:
		id, ok := e.X.(*ast.Ident)
		if !ok {
			return false
		}
		k, ok := ft.pkgAlias(id)
		if !ok {
			return false
		}
		pkKey, name = k, e.Sel.Name
	default:
		return false
	}
	key := pkKey + "." + name
	if r, ok := poolMemo[key]; ok {
		return r
	}
	poolMemo[key] = false // (recursion guard)
	r := poolFreshDecl(prog.Pkgs[pkKey], name)
	poolMemo[key] = r
	return r
}

func poolFreshDecl(p *Pkg, name string) bool {
	if p == nil {
		return false
	}
	var newFn *ast.FuncLit
	for _, vs := range p.VarDecl {
		for i, n := range vs.Names {
			if n.Name != name || len(vs.Values) != len(vs.Names) {
				continue
			}
			cl, ok := strip(vs.Values[i]).(*ast.CompositeLit)
			if !ok {
				return false
			}
			for _, el := range cl.Elts {
				kv, ok := el.(*ast.KeyValueExpr)
				if !ok {
					return false
				}
				if k, ok := kv.Key.(*ast.Ident); ok && k.Name == "New" {
					newFn, _ = strip(kv.Value).(*ast.FuncLit)
				}
			}
		}
	}
	if newFn == nil {
		return false
	}
	// never reassigned, address never taken
	bad := false
	rooted := func(e ast.Expr) bool {
		for {
			switch x := e.(type) {
			case *ast.ParenExpr:
				e = x.X
			case *ast.SelectorExpr:
				e = x.X
			case *ast.StarExpr:
				e = x.X
			case *ast.IndexExpr:
				e = x.X
			case *ast.Ident:
				return x.Name == name
			default:
				return false
			}
		}
	}
	for _, f := range p.Files {
		ast.Inspect(f, func(n ast.Node) bool {
			switch s := n.(type) {
			case *ast.AssignStmt:
				for _, l := range s.Lhs {
					if s.Tok != token.DEFINE && rooted(l) {
						bad = true
					}
				}
			case *ast.UnaryExpr:
				if s.Op == token.AND && rooted(s.X) {
					bad = true
				}
			}
			return true
		})
	}
	if bad {
		return false
	}
	// the New function: analysed like a function body
	fd := &ast.FuncDecl{Name: &ast.Ident{Name: "poolNew"}, Type: newFn.Type, Body: newFn.Body}
	f := translateFunc(p, p.Dir+"."+name+".New", fd, false)
	if len(f.Sum.Ret) != 0 || !f.Sum.Fresh {
		return false
	}
	for _, in := range f.Body {
		switch in.Op {
		case "call":
			return false
		case "write", "read", "ret":
			for _, r := range in.Roots {
				if r.Kind != KLocal {
					return false
				}
			}
		}
	}
	return true
}

// ---------------------------------------------------------------------------
// Ownership discipline of pooled objects (session 4, after seeded change M_C17e: `defer pool.Put(v)`
// added to a function that already ends with `pool.Put(v)` -- the object sits in the pool twice and
// two later Get() calls, possibly on two goroutines, receive the SAME object).  "Get() is fresh and
// owned until Put" is only sound if every object is Put at most once per Get and never touched after
// its Put.  poolDisciplineOK is a purely syntactic, flow-sensitive check of a function body; anything
// it cannot follow is refused (the caller then treats the function as writing unknown memory, which
// fails the purity / package-state verdicts: fail closed).
//   - a variable Put inside a defer may not be Put anywhere else in the function;
//   - after a (non-deferred) Put(v) on some path, v may not be mentioned again on that path
//     (no second Put, no use after release); loops are walked twice;
//   - Put's argument must be a plain identifier; a Put nested inside another expression, a function
//     literal or a go statement is refused.
func poolDisciplineOK(body *ast.BlockStmt) bool {
	if body == nil {
		return true
	}
	isPut := func(c *ast.CallExpr) (*ast.Ident, bool, bool) { // (argument, is a Put call, well-formed)
		sel, ok := c.Fun.(*ast.SelectorExpr)
		if !ok || sel.Sel.Name != "Put" || len(c.Args) != 1 {
			return nil, false, true
		}
		// only x.Put(..) where x is an identifier or selector (a pool variable); whether it really is a
		// sync.Pool does not matter: being stricter on other Put methods only refuses more
		id, ok := c.Args[0].(*ast.Ident)
		if !ok {
			return nil, true, false
		}
		return id, true, true
	}
	// the variables that are Put somewhere, and the deferred ones
	put := map[*ast.Object]int{}
	deferred := map[*ast.Object]int{}
	ok := true
	var deferCalls = map[*ast.CallExpr]bool{}
	ast.Inspect(body, func(n ast.Node) bool {
		switch x := n.(type) {
		case *ast.DeferStmt:
			deferCalls[x.Call] = true
		case *ast.GoStmt:
			if containsPut(x) {
				ok = false
			}
		case *ast.FuncLit:
			if containsPut(x.Body) {
				ok = false
			}
		case *ast.CallExpr:
			id, is, wf := isPut(x)
			if is && (!wf || id.Obj == nil) {
				ok = false
			} else if is {
				put[id.Obj]++
				if deferCalls[x] {
					deferred[id.Obj]++
				}
			}
		}
		return true
	})
	if !ok {
		return false
	}
	for o, n := range deferred {
		if n > 1 || put[o] != n {
			return false // deferred and also Put elsewhere (or deferred twice)
		}
	}
	for o := range put {
		if deferred[o] > 0 {
			continue
		}
		w := &putWalker{obj: o, ok: true}
		w.stmts(body.List, false)
		if !w.ok {
			return false
		}
	}
	return true
}

func containsPut(n ast.Node) bool {
	found := false
	ast.Inspect(n, func(m ast.Node) bool {
		if c, ok := m.(*ast.CallExpr); ok {
			if sel, ok := c.Fun.(*ast.SelectorExpr); ok && sel.Sel.Name == "Put" {
				found = true
			}
		}
		return !found
	})
	return found
}

type putWalker struct {
	obj *ast.Object
	ok  bool
}

func (w *putWalker) mentions(n ast.Node) bool {
	if n == nil {
		return false
	}
	found := false
	ast.Inspect(n, func(m ast.Node) bool {
		if id, ok := m.(*ast.Ident); ok && id.Obj == w.obj {
			found = true
		}
		return !found
	})
	return found
}

// putsHere: the statement is exactly `x.Put(v)` for the tracked variable
func (w *putWalker) putsHere(s ast.Stmt) bool {
	es, ok := s.(*ast.ExprStmt)
	if !ok {
		return false
	}
	c, ok := es.X.(*ast.CallExpr)
	if !ok {
		return false
	}
	sel, ok := c.Fun.(*ast.SelectorExpr)
	if !ok || sel.Sel.Name != "Put" || len(c.Args) != 1 {
		return false
	}
	id, ok := c.Args[0].(*ast.Ident)
	return ok && id.Obj == w.obj
}

// putsInside: a Put of the tracked variable somewhere inside n
func (w *putWalker) putsInside(n ast.Node) bool {
	found := false
	ast.Inspect(n, func(m ast.Node) bool {
		if c, ok := m.(*ast.CallExpr); ok {
			if sel, ok := c.Fun.(*ast.SelectorExpr); ok && sel.Sel.Name == "Put" && len(c.Args) == 1 {
				if id, ok := c.Args[0].(*ast.Ident); ok && id.Obj == w.obj {
					found = true
				}
			}
		}
		return !found
	})
	return found
}

// stmts walks a statement list; released = the object may already be in the pool.
// Returns (released afterwards, the list always leaves the function).
func (w *putWalker) stmts(list []ast.Stmt, released bool) (bool, bool) {
	for _, s := range list {
		var term bool
		released, term = w.stmt(s, released)
		if term {
			return released, true
		}
	}
	return released, false
}

func (w *putWalker) stmt(s ast.Stmt, released bool) (bool, bool) {
	if !w.ok {
		return released, false
	}
	switch x := s.(type) {
	case *ast.BlockStmt:
		return w.stmts(x.List, released)
	case *ast.LabeledStmt:
		return w.stmt(x.Stmt, released)
	case *ast.IfStmt:
		if x.Init != nil && (w.putsInside(x.Init) || (released && w.mentions(x.Init))) {
			w.ok = false
		}
		if w.putsInside(x.Cond) || (released && w.mentions(x.Cond)) {
			w.ok = false
		}
		r1, t1 := w.stmts(x.Body.List, released)
		r2, t2 := released, false
		if x.Else != nil {
			r2, t2 = w.stmt(x.Else, released)
		}
		switch {
		case t1 && t2:
			return released, true
		case t1:
			return r2, false
		case t2:
			return r1, false
		}
		return r1 || r2, false
	case *ast.ForStmt, *ast.RangeStmt:
		var body *ast.BlockStmt
		var hdr []ast.Node
		if f, ok := x.(*ast.ForStmt); ok {
			body = f.Body
			if f.Init != nil {
				hdr = append(hdr, f.Init)
			}
			if f.Cond != nil {
				hdr = append(hdr, f.Cond)
			}
			if f.Post != nil {
				hdr = append(hdr, f.Post)
			}
		} else {
			r := x.(*ast.RangeStmt)
			body = r.Body
			hdr = append(hdr, r.X)
		}
		for _, h := range hdr {
			if w.putsInside(h) || (released && w.mentions(h)) {
				w.ok = false
			}
		}
		r1, _ := w.stmts(body.List, released)
		if r1 && !released {
			// second iteration with the object possibly released by the first
			for _, h := range hdr {
				if w.mentions(h) {
					w.ok = false
				}
			}
			w.stmts(body.List, true)
		}
		return released || r1, false // (a loop body that always returns is treated as falling through)
	case *ast.SwitchStmt, *ast.TypeSwitchStmt, *ast.SelectStmt:
		// not used around pooled objects in this library: refuse if the variable is involved at all
		if w.mentions(s) {
			w.ok = false
		}
		return released, false
	case *ast.ReturnStmt:
		if w.putsInside(s) || (released && w.mentions(s)) {
			w.ok = false
		}
		return released, true
	case *ast.DeferStmt, *ast.GoStmt:
		if w.mentions(s) {
			w.ok = false // (deferred Puts of this variable were handled before; any other deferred use is refused)
		}
		return released, false
	case *ast.ExprStmt:
		if w.putsHere(s) {
			if released {
				w.ok = false // second Put on this path
			}
			return true, false
		}
		if c, ok := x.X.(*ast.CallExpr); ok {
			if id, ok := c.Fun.(*ast.Ident); ok && id.Name == "panic" && id.Obj == nil {
				if w.putsInside(s) || (released && w.mentions(s)) {
					w.ok = false
				}
				return released, true
			}
		}
	}
	if w.putsInside(s) {
		w.ok = false // a Put nested inside another statement form
		return true, false
	}
	if released && w.mentions(s) {
		w.ok = false // use after release
	}
	return released, false
}

package main

import (
	"go/ast"
	"go/token"
)

func (ft *FT) stmt(s ast.Stmt) {
	switch s := s.(type) {
	case nil:
	case *ast.BlockStmt:
		ft.block(s)
	case *ast.ExprStmt:
		ft.eval(s.X)
	case *ast.AssignStmt:
		ft.assignStmt(s)
	case *ast.DeclStmt:
		if d, ok := s.Decl.(*ast.GenDecl); ok {
			ft.declStmt(d)
		}
	case *ast.IncDecStmt:
		v := ft.eval(s.X)
		ft.assign(s.X, scalar(v.T), false)
	case *ast.ReturnStmt:
		ft.returnStmt(s)
	case *ast.IfStmt:
		ft.stmt(s.Init)
		ft.eval(s.Cond)
		ft.nested(func() {
			ft.block(s.Body)
			ft.stmt(s.Else)
		})
	case *ast.ForStmt:
		ft.stmt(s.Init)
		ft.nested(func() {
			ft.eval(s.Cond)
			ft.block(s.Body)
			ft.stmt(s.Post)
		})
	case *ast.RangeStmt:
		ft.rangeStmt(s)
	case *ast.SwitchStmt:
		ft.stmt(s.Init)
		ft.eval(s.Tag)
		ft.nested(func() { ft.block(s.Body) })
	case *ast.TypeSwitchStmt:
		ft.stmt(s.Init)
		ft.typeSwitch(s)
	case *ast.CaseClause:
		for _, e := range s.List {
			if _, ok := ft.typeExpr(e); !ok {
				ft.eval(e)
			}
		}
		for _, b := range s.Body {
			ft.stmt(b)
		}
	case *ast.LabeledStmt:
		ft.stmt(s.Stmt)
	case *ast.BranchStmt, *ast.EmptyStmt:
	case *ast.DeferStmt:
		ft.deferred = append(ft.deferred, deferredCall{call: s.Call, may: ft.depth > 0})
	case *ast.GoStmt:
		// the library starts no goroutines; if it ever does, give up
		ft.write(unknownSet.copy(), "")
	default:
		ft.write(unknownSet.copy(), "")
	}
}

func (ft *FT) rangeStmt(s *ast.RangeStmt) {
	bt, set := ft.base(s.X)
	ft.readRef(set)
	ft.nested(func() {
		kt := identT("int")
		et := bt.elem()
		if u := bt.under(); u.E != nil {
			if m, ok := u.E.(*ast.MapType); ok {
				kt = Type{E: m.Key, Pkg: u.Pkg}
				et = Type{E: m.Value, Pkg: u.Pkg}
			}
			if id, ok := u.E.(*ast.Ident); ok && id.Name == "string" {
				et = identT("rune")
			}
		}
		ev := scalar(et)
		if et.hasRef() {
			ev = Val{T: et, Pts: ft.load(set, "*")}
		}
		define := s.Tok == token.DEFINE
		if s.Key != nil {
			ft.assign(s.Key, scalar(kt), define)
		}
		if s.Value != nil {
			ft.assign(s.Value, ev, define)
		}
		ft.block(s.Body)
	})
}

// typeSwitch: `switch x := e.(type)`; in a clause with a single type T the
// bound variable has type T (a fresh copy for value types), otherwise the
// type of e.  All clauses may run.
func (ft *FT) typeSwitch(s *ast.TypeSwitchStmt) {
	var bound *ast.Ident
	var subject ast.Expr
	switch a := s.Assign.(type) {
	case *ast.AssignStmt:
		if id, ok := a.Lhs[0].(*ast.Ident); ok {
			bound = id
		}
		subject = a.Rhs[0]
	case *ast.ExprStmt:
		subject = a.X
	}
	if ta, ok := strip(subject).(*ast.TypeAssertExpr); ok {
		subject = ta.X
	}
	v := ft.eval(subject)
	ft.nested(func() {
		for _, st := range s.Body.List {
			cc, ok := st.(*ast.CaseClause)
			if !ok {
				continue
			}
			if bound != nil && bound.Obj != nil {
				t := v.T
				if len(cc.List) == 1 {
					if id, ok := cc.List[0].(*ast.Ident); !ok || id.Name != "nil" {
						t = Type{E: cc.List[0], Pkg: ft.pk.Dir}
					}
				}
				vr := ft.clauseV[cc]
				if vr == nil {
					vr = &Var{T: t, Pts: RootSet{}}
					ft.clauseV[cc] = vr
				}
				// the clause variable has the dynamic type of the subject: trusted as a
				// library interface value only if the subject is (trust.go)
				vr.IfaceUntrusted = vr.IfaceUntrusted || !v.Trusted
				refs := RootSet{}
				if t.hasRef() {
					refs = v.Pts
				}
				if t.isObjectValue() {
					r := ft.alloc(cc)
					vr.Obj = &r
					ft.addCont(r, "*", refs)
				} else if vr.Pts.addAll(refs) {
					ft.changed = true
				}
				ft.vars[bound.Obj] = vr
			}
			for _, b := range cc.Body {
				ft.stmt(b)
			}
		}
		if bound != nil && bound.Obj != nil {
			delete(ft.vars, bound.Obj)
		}
	})
}

package main

import (
	"go/ast"
	"go/token"
	"strings"
)

// Type is a syntactic type: an ast type expression interpreted in package Pkg.
// E == nil means "unknown".
type Type struct {
	E   ast.Expr
	Pkg string
}

var unknownT = Type{}

func identT(name string) Type { return Type{E: &ast.Ident{Name: name}, Pkg: ""} }

func libT(pkg, name string, ptr bool) Type {
	var e ast.Expr = &ast.SelectorExpr{X: &ast.Ident{Name: pkg}, Sel: &ast.Ident{Name: name}}
	if ptr {
		e = &ast.StarExpr{X: e}
	}
	return Type{E: e, Pkg: "#lib"}
}

// GVar is a package-level variable.
type GVar struct {
	Name string
	T    Type
}

// Pkg is a parsed repo package (keyed by directory name).
type Pkg struct {
	Dir     string
	Files   []*ast.File
	Imports map[string]string // alias -> package key ("big", "constants", ...)
	Types   map[string]*ast.TypeSpec
	Funcs   map[string]*ast.FuncDecl // "F" or "T.M"
	Vars    map[string]*GVar
	Consts  map[string]bool
	Inits   []*ast.FuncDecl
	VarDecl []*ast.ValueSpec
}

// declares: the package scope declares this name, which therefore shadows a
// predeclared identifier of the same spelling (func max, func new, type byte,
// var nil ... are all legal Go).
func (p *Pkg) declares(name string) bool {
	if p == nil {
		return false
	}
	_, v := p.Vars[name]
	return p.Funcs[name] != nil || p.Types[name] != nil || v || p.Consts[name]
}

// Prog is the set of translated packages.
type Prog struct {
	Fset *token.FileSet
	Pkgs map[string]*Pkg
}

var prog *Prog

func importKey(path string) string {
	path = strings.Trim(path, "\"")
	i := strings.LastIndex(path, "/")
	return path[i+1:]
}

// strip removes parentheses.
func strip(e ast.Expr) ast.Expr {
	for {
		p, ok := e.(*ast.ParenExpr)
		if !ok {
			return e
		}
		e = p.X
	}
}

// named returns (pkgkey, name) when t is a named type (not through pointers).
func (t Type) named() (string, string, bool) {
	switch e := strip(t.E).(type) {
	case *ast.Ident:
		if isBuiltinType(e.Name) && !(prog.Pkgs[t.Pkg] != nil && prog.Pkgs[t.Pkg].Types[e.Name] != nil) {
			return "", e.Name, false
		}
		return t.Pkg, e.Name, true
	case *ast.SelectorExpr:
		x, ok := e.X.(*ast.Ident)
		if !ok {
			return "", "", false
		}
		if t.Pkg == "#lib" {
			return x.Name, e.Sel.Name, true
		}
		if p := prog.Pkgs[t.Pkg]; p != nil {
			if k, ok := p.Imports[x.Name]; ok {
				return k, e.Sel.Name, true
			}
		}
		return x.Name, e.Sel.Name, true
	}
	return "", "", false
}

func isBuiltinType(n string) bool {
	switch n {
	case "bool", "string", "int", "int8", "int16", "int32", "int64", "uint",
		"uint8", "uint16", "uint32", "uint64", "uintptr", "byte", "rune",
		"float32", "float64", "error":
		return true
	}
	return false
}

// under resolves named repo types to their underlying type expression.
func (t Type) under() Type {
	for i := 0; i < 10; i++ {
		if t.E == nil {
			return t
		}
		pk, n, ok := t.named()
		if !ok {
			return Type{E: strip(t.E), Pkg: t.Pkg}
		}
		p := prog.Pkgs[pk]
		if p == nil {
			return t
		}
		ts := p.Types[n]
		if ts == nil {
			return t
		}
		t = Type{E: ts.Type, Pkg: pk}
	}
	return t
}

func (t Type) isPtr() bool {
	if t.E == nil {
		return false
	}
	_, ok := strip(t.E).(*ast.StarExpr)
	return ok
}

// deref returns the pointee type of a pointer type (or t itself).
func (t Type) deref() Type {
	if t.E == nil {
		return t
	}
	if s, ok := strip(t.E).(*ast.StarExpr); ok {
		return Type{E: s.X, Pkg: t.Pkg}
	}
	return t
}

func (t Type) ptrTo() Type {
	if t.E == nil {
		return t
	}
	return Type{E: &ast.StarExpr{X: t.E}, Pkg: t.Pkg}
}

// elem returns the element type of a slice/array/pointer-to-array/ellipsis.
func (t Type) elem() Type {
	u := t.under()
	if u.isPtr() {
		u = u.deref().under()
	}
	switch e := u.E.(type) {
	case *ast.ArrayType:
		return Type{E: e.Elt, Pkg: u.Pkg}
	case *ast.Ellipsis:
		return Type{E: e.Elt, Pkg: u.Pkg}
	}
	// opaque library array types: ff.Element is [4]uint64, ffg.Element uint64
	if pk, n, ok := u.named(); ok && (pk == "ff" || pk == "ffg") && n == "Element" {
		return identT("uint64")
	}
	return unknownT
}

// isSlice reports slice types (array types with no length).
func (t Type) isSlice() bool {
	u := t.under()
	switch e := u.E.(type) {
	case *ast.ArrayType:
		return e.Len == nil
	case *ast.Ellipsis:
		return true
	}
	return false
}

// hasRef reports whether a value of type t can carry a reference to a
// mutable object (pointer, slice, map, interface, func, struct with such a
// field, array of such).  Unknown types are assumed to carry references.
func (t Type) hasRef() bool { return t.hasRefN(0) }

func (t Type) hasRefN(d int) bool {
	if t.E == nil || d > 8 {
		return true
	}
	u := t.under()
	switch e := u.E.(type) {
	case *ast.Ident:
		if isBuiltinType(e.Name) {
			return false // error values are treated as immutable
		}
		return true
	case *ast.SelectorExpr:
		// opaque library value types
		pk, n, _ := u.named()
		if (pk == "ff" || pk == "ffg") && n == "Element" {
			return false
		}
		if pk == "big" && n == "Int" {
			return true // a big.Int value shares its word slice
		}
		return true
	case *ast.StarExpr, *ast.MapType, *ast.InterfaceType, *ast.FuncType, *ast.ChanType, *ast.Ellipsis:
		return true
	case *ast.ArrayType:
		if e.Len == nil {
			return true
		}
		return Type{E: e.Elt, Pkg: u.Pkg}.hasRefN(d + 1)
	case *ast.StructType:
		for _, f := range e.Fields.List {
			if (Type{E: f.Type, Pkg: u.Pkg}).hasRefN(d + 1) {
				return true
			}
		}
		return false
	}
	return true
}

// isObjectValue: a local variable of this type is itself a mutable object
// (array or struct value) that can be indexed/field-assigned/addressed.
func (t Type) isObjectValue() bool {
	if t.E == nil {
		return false
	}
	u := t.under()
	switch e := u.E.(type) {
	case *ast.ArrayType:
		return e.Len != nil
	case *ast.StructType:
		return true
	case *ast.SelectorExpr:
		pk, n, _ := u.named()
		return (pk == "ff" || pk == "ffg" || pk == "big") && (n == "Element" || n == "Int")
	}
	return false
}

// field returns the type of field f of struct type t (through one pointer).
func (t Type) field(f string) Type {
	u := t.under()
	if u.isPtr() {
		u = u.deref().under()
	}
	st, ok := u.E.(*ast.StructType)
	if !ok {
		return unknownT
	}
	for _, fl := range st.Fields.List {
		for _, n := range fl.Names {
			if n.Name == f {
				return Type{E: fl.Type, Pkg: u.Pkg}
			}
		}
	}
	return unknownT
}

// refFields lists the reference-carrying fields of struct type t (through one pointer).
func (t Type) refFields() []string {
	u := t.under()
	if u.isPtr() {
		u = u.deref().under()
	}
	st, ok := u.E.(*ast.StructType)
	if !ok {
		return nil
	}
	var out []string
	for _, fl := range st.Fields.List {
		if (Type{E: fl.Type, Pkg: u.Pkg}).hasRef() {
			for _, n := range fl.Names {
				out = append(out, n.Name)
			}
		}
	}
	return out
}

package main

// trust.go: where the trusted library signatures (sigs.go) may NOT be applied.
//
//  1. Interface values.  The table describes hash.Hash, binary.ByteOrder,
//     io.Reader by the behaviour of the LIBRARY implementations.  A value of
//     such a type whose dynamic type may be declared in the module (assigned
//     from a repo value, a parameter, a field, a call result ...) makes every
//     method call through it an unknown call.  Only values that come directly
//     from a trusted constructor (blake512.New(), sha3.NewLegacyKeccak256(),
//     sha256.New()) or library variable (binary.BigEndian, rand.Reader), or
//     from a local variable that is only ever assigned such values, are
//     trusted (Val.Trusted, Var.IfaceUntrusted).
//  2. fmt.Sprintf / fmt.Errorf call the String / Error / Format / GoString
//     methods of their operands: see fmtOperands.
//  3. sync.Pool: Get() is a fresh object only if the pool's New function
//     returns a fresh object and nothing else is ever Put: see poolFresh.

import (
	"go/ast"
	"go/token"
	"strings"
)

var libIfaces = map[string]bool{"hash.Hash": true, "binary.ByteOrder": true, "io.Reader": true, "io.Writer": true}

// noteTrust: value v is assigned to the local variable obj.
func (ft *FT) noteTrust(obj *ast.Object, v Val) {
	if obj == nil {
		return
	}
	if vr := ft.vars[obj]; vr != nil && !v.Trusted && !vr.IfaceUntrusted {
		vr.IfaceUntrusted = true
		ft.changed = true
	}
}

// ---- fmt -------------------------------------------------------------------

// fmtVerbs returns the verb consumed by each operand, or nil if the format is
// not a literal or uses * / [n].
func fmtVerbs(x ast.Expr) []byte {
	bl, ok := strip(x).(*ast.BasicLit)
	if !ok || bl.Kind != token.STRING {
		return nil
	}
	s := bl.Value
	var out []byte
	for i := 0; i < len(s); i++ {
		if s[i] != '%' {
			continue
		}
		i++
		for i < len(s) && strings.IndexByte("+-# 0123456789.", s[i]) >= 0 {
			i++
		}
		if i >= len(s) || s[i] == '*' || s[i] == '[' {
			return nil
		}
		if s[i] != '%' {
			out = append(out, s[i])
		}
	}
	return out
}

var fmtMethods = []string{"Error", "String", "Format", "GoString"}

// plainType: formatting a value of this type calls no user code.
func plainType(t Type, d int) bool {
	if t.E == nil || d > 4 {
		return false
	}
	if pk, n, ok := t.deref().named(); ok {
		if pk == "big" && n == "Int" {
			return true // math/big's own Format / String: read only
		}
		p := prog.Pkgs[pk]
		if p == nil {
			return false
		}
		for _, m := range fmtMethods {
			if p.Funcs[n+"."+m] != nil {
				return false
			}
		}
	}
	u := t.under()
	if u.isPtr() {
		u = u.deref().under()
	}
	switch e := u.E.(type) {
	case *ast.Ident:
		return isBuiltinType(e.Name) && e.Name != "error"
	case *ast.ArrayType:
		return plainType(Type{E: e.Elt, Pkg: u.Pkg}, d+1)
	case *ast.SelectorExpr:
		pk, n, _ := u.named()
		return pk == "big" && n == "Int"
	}
	return false
}

// fmtOperands handles the operands of fmt.Sprintf / fmt.Errorf; true: the call
// must be treated as an unknown call.
func (ft *FT) fmtOperands(c *ast.CallExpr, args []Val) bool {
	if len(c.Args) == 0 || len(args) != len(c.Args) {
		return true
	}
	verbs := fmtVerbs(c.Args[0])
	for i, a := range args[1:] {
		if verbs != nil && i < len(verbs) && (verbs[i] == 'T' || verbs[i] == 'p') {
			continue // only the type / the address is printed
		}
		if len(a.Pts) == 0 && a.NoRef && a.T.E == nil {
			continue // nil
		}
		if plainType(a.T, 0) {
			continue
		}
		// a repo type with String / Error / GoString: call them; anything else: unknown
		pk, n, ok := a.T.deref().named()
		p := prog.Pkgs[pk]
		if !ok || p == nil {
			return true
		}
		called := false
		for _, m := range fmtMethods {
			fd := p.Funcs[n+"."+m]
			if fd == nil {
				continue
			}
			if m == "Format" {
				return true // needs a fmt.State: not modelled
			}
			_, ptrRecv := recvTypeName(fd)
			if ptrRecv && !a.T.isPtr() {
				continue // not in the method set of the value
			}
			recv := a
			if !ptrRecv && a.T.isPtr() {
				recv = Val{T: a.T.deref(), Pts: ft.load(a.Pts, "*")}
			}
			ft.repoCall(ft.synthCall(c.Args[i+1], m), pk, n+"."+m, &recv, nil)
			called = true
		}
		if !called {
			return true
		}
	}
	return false
}

// synthCall: a stable synthetic call node (call site identity) for the
// implicit call of method m on operand x.
func (ft *FT) synthCall(x ast.Expr, m string) *ast.CallExpr {
	if ft.synth == nil {
		ft.synth = map[ast.Expr]map[string]*ast.CallExpr{}
	}
	if ft.synth[x] == nil {
		ft.synth[x] = map[string]*ast.CallExpr{}
	}
	if ft.synth[x][m] == nil {
		ft.synth[x][m] = &ast.CallExpr{Fun: &ast.SelectorExpr{X: x, Sel: &ast.Ident{Name: m}}}
	}
	return ft.synth[x][m]
}

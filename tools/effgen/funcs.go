package main

import (
	"fmt"
	"go/ast"
	"os"
)

var funcMemo = map[string]*Func{}
var inProgress = map[string]bool{}
var funcOrder []*Func

// getFunc translates pkg.name on demand (callees first: the call graph of the
// repo is acyclic; a recursive call is reported as nil = unknown effect).
func getFunc(pk, name string) *Func {
	key := pk + "." + name
	if f, ok := funcMemo[key]; ok {
		return f
	}
	if inProgress[key] {
		fmt.Fprintf(os.Stderr, "effgen: recursive call to %s treated as unknown\n", key)
		return nil
	}
	p := prog.Pkgs[pk]
	if p == nil || p.Funcs[name] == nil {
		return nil
	}
	inProgress[key] = true
	f := translateFunc(p, key, p.Funcs[name], false)
	delete(inProgress, key)
	funcMemo[key] = f
	funcOrder = append(funcOrder, f)
	return f
}

func translateFunc(p *Pkg, key string, fd *ast.FuncDecl, isInit bool) *Func {
	ft := newFT(p, key)
	ft.fd = fd
	f := &Func{Name: key, IsInit: isInit}
	f.Exported = !isInit && fd.Name.IsExported()
	type param struct {
		id *ast.Ident
		t  Type
	}
	var params []param
	addFields := func(fl *ast.FieldList) {
		if fl == nil {
			return
		}
		for _, fld := range fl.List {
			t := Type{E: fld.Type, Pkg: p.Dir}
			if len(fld.Names) == 0 {
				params = append(params, param{nil, t})
			}
			for _, n := range fld.Names {
				params = append(params, param{n, t})
			}
			if _, ok := fld.Type.(*ast.Ellipsis); ok {
				f.Variadic = true
			}
		}
	}
	if fd.Recv != nil {
		addFields(fd.Recv)
		if rn, _ := recvTypeName(fd); !ast.IsExported(rn) && !promotedExported(p)[rn] {
			f.Exported = false
		}
		f.RecvFlds = params[0].t.refFields()
	}
	addFields(fd.Type.Params)
	f.NParams = len(params)
	for _, pr := range params {
		f.ParamRef = append(f.ParamRef, pr.t.hasRef())
	}
	if fd.Type.Results != nil {
		for _, fld := range fd.Type.Results.List {
			t := Type{E: fld.Type, Pkg: p.Dir}
			n := len(fld.Names)
			if n == 0 {
				n = 1
			}
			for i := 0; i < n; i++ {
				f.ResT = append(f.ResT, t)
			}
			for _, id := range fld.Names {
				if id.Obj != nil {
					ft.results = append(ft.results, id.Obj)
				}
			}
		}
	}
	ft.resT = f.ResT
	for round := 0; round < 20; round++ {
		ft.changed = false
		ft.body = nil
		ft.depth = 0
		ft.deferred = nil
		for i, pr := range params {
			v := RootSet{}
			if pr.t.hasRef() {
				v = rs(Root{Kind: KParam, I: i})
			}
			ft.declare(pr.id, pr.t, v)
			if pr.id != nil && pr.id.Obj != nil && ft.vars[pr.id.Obj] != nil {
				ft.vars[pr.id.Obj].IfaceUntrusted = true // the dynamic type of an interface parameter is unknown
			}
		}
		if fd.Type.Results != nil {
			for _, fld := range fd.Type.Results.List {
				for _, id := range fld.Names {
					ft.declare(id, Type{E: fld.Type, Pkg: p.Dir}, RootSet{})
				}
			}
		}
		if fd.Body == nil {
			ft.asmStub(key, f.NParams)
		}
		ft.block(fd.Body)
		ft.runDefers()
		if !ft.changed {
			break
		}
		if round == 19 {
			// no fixpoint: give up soundly
			fmt.Fprintf(os.Stderr, "effgen: no points-to fixpoint for %s\n", key)
			ft.write(unknownSet.copy(), "")
		}
	}
	if !poolDisciplineOK(fd.Body) {
		// a pooled object is Put twice on some path, or used after its Put (pool.go): Get() is then
		// not a fresh, exclusively owned object any more
		fmt.Fprintf(os.Stderr, "effgen: %s breaks the ownership discipline of pooled objects (Put twice or use after Put)\n", key)
		ft.write(unknownSet.copy(), "")
	}
	if ft.putEscapes() {
		// an object that is in the pool is also reachable by the caller (returned or
		// stored): a later Get() of some other call would hand out a shared object
		ft.write(unknownSet.copy(), "")
	}
	f.Body = ft.body
	f.Sum = ft.summary(f.NParams)
	return f
}

// translateVarInits builds the synthetic initialiser "pkg.init#vars".
func translateVarInits(p *Pkg) *Func {
	ft := newFT(p, p.Dir+".init#vars")
	for round := 0; round < 20; round++ {
		ft.changed = false
		ft.body = nil
		for _, vs := range p.VarDecl {
			ft.valueSpec(vs, true)
		}
		if !ft.changed {
			break
		}
	}
	return &Func{Name: ft.name, IsInit: true, Body: ft.body, Sum: Summary{Ret: RootSet{}, Stores: map[int]RootSet{}}}
}

// exportedFuncVars: an exported package-level variable that holds a function
// (`var Wipe = func(a *big.Int) {..}`) is part of the exported surface.  A
// function literal initialiser is analysed as the exported function
// "pkg.Name"; any other exported variable of function type (declared type, or
// initialised with a named function) cannot be followed: effgen stops.
func exportedFuncVars(p *Pkg) error {
	for _, vs := range p.VarDecl {
		for i, n := range vs.Names {
			if !n.IsExported() {
				continue
			}
			var val ast.Expr
			if len(vs.Values) == len(vs.Names) {
				val = strip(vs.Values[i])
			}
			if lit, ok := val.(*ast.FuncLit); ok {
				fd := &ast.FuncDecl{Name: &ast.Ident{Name: n.Name}, Type: lit.Type, Body: lit.Body}
				f := translateFunc(p, p.Dir+"."+n.Name, fd, false)
				funcMemo[f.Name] = f
				funcOrder = append(funcOrder, f)
				continue
			}
			isFunc := false
			if vs.Type != nil {
				_, isFunc = (Type{E: vs.Type, Pkg: p.Dir}).under().E.(*ast.FuncType)
			}
			if id, ok := val.(*ast.Ident); ok && p.Funcs[id.Name] != nil {
				isFunc = true
			}
			if isFunc {
				return fmt.Errorf("%s: exported variable %s.%s holds a function that is not a literal (unsupported: its callers cannot be followed)",
					prog.Fset.Position(n.Pos()), p.Dir, n.Name)
			}
		}
	}
	return nil
}

// promotedExported: the unexported types of p that are embedded (directly or
// through other embedded structs) in an EXPORTED struct type: their exported
// methods are promoted and so belong to the exported surface of the package.
var promotedMemo = map[*Pkg]map[string]bool{}

func promotedExported(p *Pkg) map[string]bool {
	if m, ok := promotedMemo[p]; ok {
		return m
	}
	m := map[string]bool{}
	var visit func(name string, depth int)
	visit = func(name string, depth int) {
		ts := p.Types[name]
		if ts == nil || depth > 8 {
			return
		}
		st, ok := ts.Type.(*ast.StructType)
		if !ok {
			return
		}
		for _, fl := range st.Fields.List {
			if len(fl.Names) != 0 {
				continue
			}
			t := strip(fl.Type)
			if s, ok := t.(*ast.StarExpr); ok {
				t = strip(s.X)
			}
			if id, ok := t.(*ast.Ident); ok && !m[id.Name] {
				m[id.Name] = true
				visit(id.Name, depth+1)
			}
		}
	}
	for name := range p.Types {
		if ast.IsExported(name) {
			visit(name, 0)
		}
	}
	promotedMemo[p] = m
	return m
}

var globalTypeBusy = map[string]bool{}

// globalType returns the (possibly inferred) type of a package-level variable.
func globalType(pk, name string) Type {
	p := prog.Pkgs[pk]
	if p == nil {
		// variables of library packages (none are used by the repo)
		return unknownT
	}
	gv := p.Vars[name]
	if gv == nil {
		return unknownT
	}
	if gv.T.E != nil || globalTypeBusy[pk+"."+name] {
		return gv.T
	}
	globalTypeBusy[pk+"."+name] = true
	defer delete(globalTypeBusy, pk+"."+name)
	for _, vs := range p.VarDecl {
		for _, n := range vs.Names {
			if n.Name == name {
				ft := newFT(p, "#type")
				ft.valueSpec(vs, true)
				return gv.T
			}
		}
	}
	return gv.T
}

// asmStub: the body of a declaration without Go body (assembly routine),
// from the visible table asmStubs in sigs.go.
func (ft *FT) asmStub(key string, nparams int) {
	written, ok := asmStubs[key]
	if !ok {
		fmt.Fprintf(os.Stderr, "effgen: body-less function %s is not in asmStubs\n", key)
		ft.write(unknownSet.copy(), "")
		return
	}
	isW := map[int]bool{}
	for _, i := range written {
		isW[i] = true
	}
	for i := 0; i < nparams; i++ {
		p := rs(Root{Kind: KParam, I: i})
		if isW[i] {
			ft.write(p, "")
		} else {
			ft.read(p)
		}
	}
}

package main

import (
	"go/ast"
)

func (ft *FT) methodCall(c *ast.CallExpr, f *ast.SelectorExpr) []Val {
	v := ft.eval(f.X)
	xt := v.T
	args := ft.evalArgs(c.Args)
	if xt.E == nil {
		ft.write(v.Pts, "")
		return ft.unknownCall(args)
	}
	pk, n, ok := xt.deref().named()
	if !ok {
		ft.write(v.Pts, "")
		return ft.unknownCall(args)
	}
	target := func() RootSet {
		if xt.isPtr() || !xt.isObjectValue() {
			if v.Pts == nil {
				return RootSet{}
			}
			return v.Pts
		}
		return ft.addr(f.X)
	}
	if ms, ok := libMethods[pk+"."+n]; ok {
		sig, ok := ms[f.Sel.Name]
		if !ok {
			ft.write(target(), "")
			return ft.unknownCall(args)
		}
		if libIfaces[pk+"."+n] && !v.Trusted {
			// the dynamic type may be declared in the module: dynamic dispatch (trust.go)
			ft.write(target(), "")
			return ft.unknownCall(args)
		}
		if pk+"."+n == "sync.Pool" {
			ok := ft.poolFresh(f.X)
			if f.Sel.Name == "Put" { // only objects local to this function may be Put (pool.go)
				for _, a := range args {
					ok = ok && !lostRef(a) && len(ft.nonLocal(a.Pts)) == 0
					if ft.putRoots == nil {
						ft.putRoots = RootSet{}
					}
					ft.putRoots.addAll(a.Pts) // ... and they may not escape (checked at the end)
				}
			}
			if !ok {
				ft.write(target(), "")
				return ft.unknownCall(args)
			}
		}
		// x.f.Set(..): remember which field of x holds the mutated object
		fld := ""
		if sel, ok := strip(f.X).(*ast.SelectorExpr); ok {
			fld = sel.Sel.Name
		}
		tgt := target()
		if !xt.isPtr() && xt.isObjectValue() && (sig.Eff == "W" || sig.Eff == "W+01") {
			// v := *a copies only the header of a library object: v shares a's digit
			// array, so a write to v may write whatever v was copied from
			tgt = tgt.copy()
			tgt.addAll(ft.load(tgt, "*"))
		}
		return ft.libCall(c, sig, fld, libT(pk, n, true), tgt, args)
	}
	// a repo type, possibly defined over another named type: methods are
	// looked up on the named type itself only (Go does not inherit them).
	p := prog.Pkgs[pk]
	if p == nil {
		ft.write(target(), "")
		return ft.unknownCall(args)
	}
	fd := p.Funcs[n+"."+f.Sel.Name]
	if fd == nil {
		ft.write(target(), "")
		return ft.unknownCall(args)
	}
	_, ptrRecv := recvTypeName(fd)
	var ra RootSet
	if ptrRecv {
		ra = target()
	} else if xt.isPtr() {
		ft.readVal(v)
		ra = ft.load(v.Pts, "*")
	} else {
		ra = v.Pts
	}
	return ft.repoCall(c, pk, n+"."+f.Sel.Name, &Val{T: xt, Pts: ra}, args)
}

func (ft *FT) repoCall(c *ast.CallExpr, pk, fname string, recv *Val, args []Val) []Val {
	callee := getFunc(pk, fname)
	all := args
	if recv != nil {
		all = append([]Val{*recv}, args...)
	}
	if callee == nil {
		return ft.unknownCall(all)
	}
	sets := make([]RootSet, callee.NParams)
	lost := make([]bool, callee.NParams)
	for i := range sets {
		sets[i] = RootSet{}
	}
	for i, a := range all {
		j := i
		if j >= callee.NParams {
			j = callee.NParams - 1
		}
		if j < 0 {
			break
		}
		pts := a.Pts
		if callee.Variadic && j == callee.NParams-1 && c.Ellipsis.IsValid() {
			pts = a.Pts // xs... passes the slice itself
		}
		if callee.ParamRef[j] {
			sets[j].addAll(ft.closure(pts))
			if lostRef(a) {
				lost[j] = true // fail closed: reference with unknown target
			}
		}
	}
	subst := func(s RootSet) RootSet {
		out := RootSet{}
		for _, r := range s {
			if r.Kind == KParam {
				if r.I < len(sets) {
					out.addAll(sets[r.I])
				}
			} else {
				out[r.key()] = r
			}
		}
		return out
	}
	// FAIL CLOSED: fewer arguments than parameters (only possible for f(g()) with a
	// multi-valued g that could not be spread): the missing ones are unknown.
	need := callee.NParams
	if callee.Variadic {
		need--
	}
	for j := len(all); j < need; j++ {
		if callee.ParamRef[j] {
			lost[j] = true
		}
	}
	k := ft.site(c)
	ft.isCall[k] = true
	rsub := subst(callee.Sum.Ret)
	hint := ft.nonLocal(rsub)
	if ft.hints[k] == nil {
		ft.hints[k] = RootSet{}
	}
	if ft.hints[k].addAll(hint) {
		ft.changed = true
	}
	argLists := make([][]Root, len(sets))
	for i, s := range sets {
		argLists[i] = s.list()
		if lost[i] {
			argLists[i] = append(argLists[i], Root{Kind: KUnknown})
		}
	}
	ft.emit(Instr{Op: "call", Fn: callee.Name, Args: argLists, K: k, Hint: ft.hints[k].list()})
	res := rsub.copy()
	if callee.Sum.Fresh {
		l := Root{Kind: KLocal, I: k}
		res[l.key()] = l
	}
	for i, v := range callee.Sum.Stores {
		sv := subst(v)
		for _, a := range sets[i] {
			ft.addCont(a, "*", sv)
		}
	}
	out := make([]Val, 0, len(callee.ResT))
	for _, rt := range callee.ResT {
		if rt.hasRef() {
			out = append(out, Val{T: rt, Pts: res.copy()})
		} else {
			out = append(out, scalar(rt))
		}
	}
	ft.nres = len(callee.ResT)
	return out
}

module effgen

go 1.20

package main

import (
	"fmt"
	"go/ast"
	"go/build"
	"go/parser"
	"go/token"
	"os"
	"path/filepath"
	"sort"
	"strings"
)

// The packages that are translated (all Go packages of the repo).
var repoPkgs = []string{"ff", "ffg", "constants", "utils", "keccak256", "poseidon", "goldenposeidon", "mimc7", "babyjub"}

// defaultMatch reports whether `go build` on linux/amd64 WITHOUT custom tags
// compiles the file: //go:build and // +build lines AND the _GOOS / _GOARCH
// file-name suffixes, exactly as go/build decides it.  The only input that
// depends on the machine is cgo: a file whose selection depends on it is an error.
func defaultMatch(dir, name string) (bool, error) {
	ctx := build.Default
	ctx.GOOS, ctx.GOARCH, ctx.Compiler = "linux", "amd64", "gc"
	ctx.BuildTags, ctx.UseAllFiles = nil, false
	ctx.CgoEnabled = true
	a, err := ctx.MatchFile(dir, name)
	if err != nil {
		return false, err
	}
	ctx.CgoEnabled = false
	b, err := ctx.MatchFile(dir, name)
	if err != nil {
		return false, err
	}
	if a != b {
		return false, fmt.Errorf("%s/%s: whether the file is compiled depends on cgo (unsupported)", dir, name)
	}
	return a, nil
}

// readModule reads the module path from go.mod and checks that EVERY package
// of the module is in the analysed list repoPkgs: the verdicts quantify over
// "all exported functions", which would silently exclude an unlisted package.
func readModule(repo string) error {
	gm, err := os.ReadFile(filepath.Join(repo, "go.mod"))
	if err != nil {
		return err
	}
	for _, ln := range strings.Split(string(gm), "\n") {
		if f := strings.Fields(ln); len(f) == 2 && f[0] == "module" {
			modulePath = strings.Trim(f[1], "\"")
		}
	}
	if modulePath == "" {
		return fmt.Errorf("no module line in %s/go.mod", repo)
	}
	listed := map[string]bool{}
	for _, d := range repoPkgs {
		listed[d] = true
	}
	return filepath.WalkDir(repo, func(path string, d os.DirEntry, err error) error {
		if err != nil {
			return err
		}
		if d.IsDir() {
			if n := d.Name(); path != repo && (strings.HasPrefix(n, ".") || strings.HasPrefix(n, "_") || n == "testdata" || n == "vendor") {
				return filepath.SkipDir
			}
			return nil
		}
		if !strings.HasSuffix(path, ".go") || strings.HasSuffix(path, "_test.go") {
			return nil
		}
		rel, _ := filepath.Rel(repo, filepath.Dir(path))
		if !listed[filepath.ToSlash(rel)] {
			return fmt.Errorf("%s: Go package %q of the module is not in the analysed list (repoPkgs in load.go)", path, rel)
		}
		return nil
	})
}

func loadProg(repo string) (*Prog, error) {
	if err := readModule(repo); err != nil {
		return nil, err
	}
	p := &Prog{Fset: token.NewFileSet(), Pkgs: map[string]*Pkg{}}
	for _, dir := range repoPkgs {
		pk := &Pkg{Dir: dir, Imports: map[string]string{}, Types: map[string]*ast.TypeSpec{},
			Funcs: map[string]*ast.FuncDecl{}, Vars: map[string]*GVar{}, Consts: map[string]bool{}}
		names, err := filepath.Glob(filepath.Join(repo, dir, "*.go"))
		if err != nil {
			return nil, err
		}
		sort.Strings(names)
		for _, fn := range names {
			if strings.HasSuffix(fn, "_test.go") {
				continue
			}
			src, err := os.ReadFile(fn)
			if err != nil {
				return nil, err
			}
			f, err := parser.ParseFile(p.Fset, fn, src, parser.ParseComments)
			if err != nil {
				return nil, err
			}
			if ok, err := defaultMatch(filepath.Join(repo, dir), filepath.Base(fn)); err != nil {
				return nil, err
			} else if !ok {
				continue
			}
			pk.Files = append(pk.Files, f)
		}
		if len(pk.Files) == 0 {
			return nil, fmt.Errorf("no Go files in %s/%s", repo, dir)
		}
		for _, f := range pk.Files {
			if err := collect(pk, f, p.Fset); err != nil {
				return nil, err
			}
		}
		p.Pkgs[dir] = pk
	}
	return p, nil
}

func recvTypeName(fd *ast.FuncDecl) (string, bool) {
	if fd.Recv == nil || len(fd.Recv.List) == 0 {
		return "", false
	}
	t := strip(fd.Recv.List[0].Type)
	ptr := false
	if s, ok := t.(*ast.StarExpr); ok {
		t = strip(s.X)
		ptr = true
	}
	if id, ok := t.(*ast.Ident); ok {
		return id.Name, ptr
	}
	return "?", ptr
}

// Imports are resolved by their FULL path.  The key under which a package is
// looked up in the tables (repo packages, trusted library signatures) is
//   - the directory name for the analysed packages <module>/<dir>,
//   - the short name for exactly the library paths listed in trustedPaths,
//   - for any other import the last path element, unless that name belongs to
//     an analysed or trusted package: then "~<path>", which matches no table
//     (every call into such a package is an unknown call).
var trustedPaths = map[string]string{
	"math/big": "big", "math/bits": "bits", "encoding/binary": "binary", "encoding/hex": "hex",
	"fmt": "fmt", "errors": "errors", "strings": "strings", "strconv": "strconv", "reflect": "reflect",
	"bytes": "bytes", "crypto/rand": "rand", "io": "io", "sync": "sync", "hash": "hash",
	"crypto/sha256": "sha256", "golang.org/x/crypto/sha3": "sha3", "github.com/dchest/blake512": "blake512",
}

var modulePath string

func importKeyOf(path string) string {
	for _, dir := range repoPkgs {
		if path == modulePath+"/"+dir {
			return dir
		}
	}
	if k, ok := trustedPaths[path]; ok {
		return k
	}
	k := importKey(path)
	claimed := false
	for _, dir := range repoPkgs {
		claimed = claimed || dir == k
	}
	for _, t := range trustedPaths {
		claimed = claimed || t == k
	}
	if claimed {
		return "~" + path
	}
	return k
}

func collect(pk *Pkg, f *ast.File, fset *token.FileSet) error {
	dup := func(n ast.Node, what, name string) error {
		return fmt.Errorf("%s: duplicate declaration of %s %s in package %s", fset.Position(n.Pos()), what, name, pk.Dir)
	}
	for _, im := range f.Imports {
		path := strings.Trim(im.Path.Value, "\"`")
		key := importKeyOf(path)
		alias := importKey(path)
		if im.Name != nil {
			alias = im.Name.Name
		}
		if old, ok := pk.Imports[alias]; ok && old != key {
			return fmt.Errorf("%s: the import name %s denotes two different packages in package %s (unsupported)", fset.Position(im.Pos()), alias, pk.Dir)
		}
		pk.Imports[alias] = key
	}
	for _, d := range f.Decls {
		switch d := d.(type) {
		case *ast.FuncDecl:
			if d.Recv == nil && d.Name.Name == "init" {
				pk.Inits = append(pk.Inits, d)
				continue
			}
			name := d.Name.Name
			if rn, _ := recvTypeName(d); d.Recv != nil {
				name = rn + "." + name
			}
			if _, ok := pk.Funcs[name]; ok && d.Name.Name != "_" {
				return dup(d, "function", name)
			}
			pk.Funcs[name] = d
		case *ast.GenDecl:
			for _, sp := range d.Specs {
				switch sp := sp.(type) {
				case *ast.TypeSpec:
					if _, ok := pk.Types[sp.Name.Name]; ok && sp.Name.Name != "_" {
						return dup(sp, "type", sp.Name.Name)
					}
					pk.Types[sp.Name.Name] = sp
				case *ast.ValueSpec:
					if d.Tok == token.CONST {
						for _, n := range sp.Names {
							pk.Consts[n.Name] = true
						}
						continue
					}
					pk.VarDecl = append(pk.VarDecl, sp)
					for _, n := range sp.Names {
						gv := &GVar{Name: n.Name}
						if sp.Type != nil {
							gv.T = Type{E: sp.Type, Pkg: pk.Dir}
						}
						if _, ok := pk.Vars[n.Name]; ok && n.Name != "_" {
							return dup(n, "variable", n.Name)
						}
						pk.Vars[n.Name] = gv
					}
				}
			}
		}
	}
	return nil
}

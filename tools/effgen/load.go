package main

import (
	"fmt"
	"go/ast"
	"go/build/constraint"
	"go/parser"
	"go/token"
	"os"
	"path/filepath"
	"sort"
	"strings"
)

// The packages that are translated (all Go packages of the repo).
var repoPkgs = []string{"ff", "ffg", "constants", "utils", "keccak256", "poseidon", "goldenposeidon", "mimc7", "babyjub"}

// defaultBuild evaluates a //go:build expression under the default tag set.
func defaultBuild(f *ast.File) bool {
	for _, cg := range f.Comments {
		if cg.Pos() >= f.Package {
			break
		}
		for _, c := range cg.List {
			if !constraint.IsGoBuild(c.Text) {
				continue
			}
			x, err := constraint.Parse(c.Text)
			if err != nil {
				return false
			}
			return x.Eval(func(tag string) bool {
				return tag == "linux" || tag == "amd64" || tag == "gc" || strings.HasPrefix(tag, "go1")
			})
		}
	}
	return true
}

func loadProg(repo string) (*Prog, error) {
	p := &Prog{Fset: token.NewFileSet(), Pkgs: map[string]*Pkg{}}
	for _, dir := range repoPkgs {
		pk := &Pkg{Dir: dir, Imports: map[string]string{}, Types: map[string]*ast.TypeSpec{},
			Funcs: map[string]*ast.FuncDecl{}, Vars: map[string]*GVar{}, Consts: map[string]bool{}}
		names, err := filepath.Glob(filepath.Join(repo, dir, "*.go"))
		if err != nil {
			return nil, err
		}
		sort.Strings(names)
		for _, fn := range names {
			if strings.HasSuffix(fn, "_test.go") {
				continue
			}
			src, err := os.ReadFile(fn)
			if err != nil {
				return nil, err
			}
			f, err := parser.ParseFile(p.Fset, fn, src, parser.ParseComments)
			if err != nil {
				return nil, err
			}
			if !defaultBuild(f) {
				continue
			}
			pk.Files = append(pk.Files, f)
		}
		if len(pk.Files) == 0 {
			return nil, fmt.Errorf("no Go files in %s/%s", repo, dir)
		}
		for _, f := range pk.Files {
			collect(pk, f)
		}
		p.Pkgs[dir] = pk
	}
	return p, nil
}

func recvTypeName(fd *ast.FuncDecl) (string, bool) {
	if fd.Recv == nil || len(fd.Recv.List) == 0 {
		return "", false
	}
	t := strip(fd.Recv.List[0].Type)
	ptr := false
	if s, ok := t.(*ast.StarExpr); ok {
		t = strip(s.X)
		ptr = true
	}
	if id, ok := t.(*ast.Ident); ok {
		return id.Name, ptr
	}
	return "?", ptr
}

func collect(pk *Pkg, f *ast.File) {
	for _, im := range f.Imports {
		key := importKey(im.Path.Value)
		alias := key
		if im.Name != nil {
			alias = im.Name.Name
		}
		pk.Imports[alias] = key
	}
	for _, d := range f.Decls {
		switch d := d.(type) {
		case *ast.FuncDecl:
			if d.Recv == nil && d.Name.Name == "init" {
				pk.Inits = append(pk.Inits, d)
				continue
			}
			name := d.Name.Name
			if rn, _ := recvTypeName(d); d.Recv != nil {
				name = rn + "." + name
			}
			pk.Funcs[name] = d
		case *ast.GenDecl:
			for _, sp := range d.Specs {
				switch sp := sp.(type) {
				case *ast.TypeSpec:
					pk.Types[sp.Name.Name] = sp
				case *ast.ValueSpec:
					if d.Tok == token.CONST {
						for _, n := range sp.Names {
							pk.Consts[n.Name] = true
						}
						continue
					}
					pk.VarDecl = append(pk.VarDecl, sp)
					for _, n := range sp.Names {
						gv := &GVar{Name: n.Name}
						if sp.Type != nil {
							gv.T = Type{E: sp.Type, Pkg: pk.Dir}
						}
						pk.Vars[n.Name] = gv
					}
				}
			}
		}
	}
}

package main

import (
	"go/ast"
)

func sliceOf(elem string) ast.Expr { return &ast.ArrayType{Elt: &ast.Ident{Name: elem}} }

// Val is the abstract value of an expression: its static type and the roots
// of the objects its references may point into.
type Val struct {
	T     Type
	Pts   RootSet
	NoRef bool // provably carries no reference (scalar, nil, reference-free value)
	// Trusted (library interface types only, see trust.go): the dynamic type is a
	// library implementation (value of a trusted constructor / library variable)
	Trusted bool
}

func scalar(t Type) Val { return Val{T: t, Pts: RootSet{}, NoRef: true} }

// Var is a local variable (or parameter / named result).
type Var struct {
	T   Type
	Pts RootSet // for reference-typed variables
	Obj *Root   // for array/struct-valued variables: the variable's own object
	// ZeroDecl: declared by `var x T` without initialiser (x is the zero value, nil for a
	// reference type, until assigned); GotLost: some assignment stored a value whose
	// references the analysis had lost.  A ZeroDecl variable with an empty points-to set
	// that never GotLost provably carries no reference.
	ZeroDecl, GotLost bool
	// IfaceUntrusted: some value assigned to the variable was not Trusted (trust.go)
	IfaceUntrusted bool
}

// FT translates one function body.
type FT struct {
	pk       *Pkg
	name     string
	vars     map[*ast.Object]*Var
	contains map[string]map[string]RootSet // root key -> field -> stored roots
	sites    map[ast.Node]int
	nextK    int
	hints    map[int]RootSet // call-result local -> non-local roots it may alias
	isCall   map[int]bool
	body     []Instr
	depth    int
	changed  bool
	retSet   RootSet
	results  []*ast.Object // named results
	resT     []Type
	fd       *ast.FuncDecl
	deferred []deferredCall
	clauseV  map[ast.Node]*Var                     // type-switch clause variables
	nres     int                                   // number of results of the repo call just evaluated (see evalArgs)
	synth    map[ast.Expr]map[string]*ast.CallExpr // implicit method calls of fmt operands (trust.go)
	putRoots RootSet                               // objects given to sync.Pool.Put (pool.go)
}

// deferredCall: a defer statement seen so far; its effects are emitted at
// every function exit that follows it (before each IReturn, and at the end
// of the body), not at the defer site.
type deferredCall struct {
	call *ast.CallExpr
	may  bool
}

func (ft *FT) runDefers() {
	for i := len(ft.deferred) - 1; i >= 0; i-- {
		d := ft.deferred[i]
		if d.may {
			ft.nested(func() { ft.evalCall(d.call) })
		} else {
			ft.evalCall(d.call)
		}
	}
}

func newFT(pk *Pkg, name string) *FT {
	return &FT{pk: pk, name: name, vars: map[*ast.Object]*Var{},
		contains: map[string]map[string]RootSet{}, sites: map[ast.Node]int{},
		hints: map[int]RootSet{}, isCall: map[int]bool{}, retSet: RootSet{},
		clauseV: map[ast.Node]*Var{}}
}

func (ft *FT) site(n ast.Node) int {
	if k, ok := ft.sites[n]; ok {
		return k
	}
	k := ft.nextK
	ft.nextK++
	ft.sites[n] = k
	return k
}

func (ft *FT) emit(in Instr) {
	in.Must = ft.depth == 0
	ft.body = append(ft.body, in)
}

func (ft *FT) alloc(n ast.Node) Root {
	k := ft.site(n)
	ft.emit(Instr{Op: "alloc", K: k})
	return Root{Kind: KLocal, I: k}
}

func (ft *FT) read(s RootSet) {
	if len(s) > 0 {
		ft.emit(Instr{Op: "read", Roots: s.list()})
	}
}

func (ft *FT) write(s RootSet, fld string) {
	if len(s) > 0 {
		ft.emit(Instr{Op: "write", Roots: s.list(), Fld: fld})
	}
}

// FAIL CLOSED: an access through a reference whose points-to set is empty
// (the translator lost track of it) is reported as an access to RUnknown,
// which makes Effects.ok false.  Only values that provably carry no reference
// (scalars, nil, reference-free arrays/structs) may have an empty set.
func (ft *FT) readRef(s RootSet) {
	if len(s) == 0 {
		s = unknownSet.copy()
	}
	ft.read(s)
}

func (ft *FT) writeRef(s RootSet, fld string) {
	if len(s) == 0 {
		s = unknownSet.copy()
	}
	ft.write(s, fld)
}

// lostRef: v should carry a reference but its points-to set is empty.
func lostRef(v Val) bool {
	return len(v.Pts) == 0 && !v.NoRef && (v.T.E == nil || v.T.hasRef())
}

func (ft *FT) readVal(v Val) {
	if lostRef(v) {
		ft.read(unknownSet.copy())
		return
	}
	ft.read(v.Pts)
}

func (ft *FT) writeVal(v Val, fld string) {
	if lostRef(v) {
		ft.write(unknownSet.copy(), fld)
		return
	}
	ft.write(v.Pts, fld)
}

func (ft *FT) cont(r Root, fld string) RootSet {
	m := ft.contains[r.key()]
	if m == nil {
		m = map[string]RootSet{}
		ft.contains[r.key()] = m
	}
	if m[fld] == nil {
		m[fld] = RootSet{}
	}
	return m[fld]
}

func (ft *FT) addCont(r Root, fld string, v RootSet) {
	if len(v) == 0 {
		return
	}
	if ft.cont(r, fld).addAll(v) {
		ft.changed = true
	}
}

// load: the roots a reference loaded from field fld of an object in s may
// point into.  A Param/Global/Unknown/call-result root is a whole region, so
// a load from it stays inside it; locals allocated here are field-sensitive.
func (ft *FT) load(s RootSet, fld string) RootSet {
	out := RootSet{}
	for _, r := range s {
		if r.Kind != KLocal || ft.isCall[r.I] {
			out[r.key()] = r
		}
		for f, c := range ft.contains[r.key()] {
			if fld == "*" || f == "*" || f == fld {
				out.addAll(c)
			}
		}
	}
	return out
}

// closure: everything reachable from s.
func (ft *FT) closure(s RootSet) RootSet {
	out := s.copy()
	for again := true; again; {
		again = false
		for _, r := range out.list() {
			for _, c := range ft.contains[r.key()] {
				if out.addAll(c) {
					again = true
				}
			}
		}
	}
	return out
}

// store: references v are stored into field fld of the objects in s.
func (ft *FT) store(s RootSet, fld string, v RootSet) {
	ft.writeRef(s, fld)
	for _, r := range s {
		ft.addCont(r, fld, v)
	}
}

// nonLocal expands a root set to the Param/Global/Unknown roots it may alias.
func (ft *FT) nonLocal(s RootSet) RootSet {
	out := RootSet{}
	for _, r := range s {
		if r.Kind != KLocal {
			out[r.key()] = r
		} else if h := ft.hints[r.I]; h != nil {
			out.addAll(h)
		}
	}
	return out
}

func hasLocal(s RootSet) bool {
	for _, r := range s {
		if r.Kind == KLocal {
			return true
		}
	}
	return false
}

// declare creates a local variable of type t initialised with value refs v.
func (ft *FT) declare(id *ast.Ident, t Type, v RootSet) {
	if id == nil || id.Name == "_" || id.Obj == nil {
		return
	}
	vr := ft.vars[id.Obj]
	if vr == nil {
		vr = &Var{T: t, Pts: RootSet{}}
		ft.vars[id.Obj] = vr
	}
	if vr.T.E == nil && t.E != nil {
		vr.T = t
		ft.changed = true
	}
	if vr.T.isObjectValue() {
		r := ft.alloc(id)
		vr.Obj = &r
		ft.addCont(r, "*", v)
		return
	}
	if vr.Pts.addAll(v) {
		ft.changed = true
	}
}

// summary computes the caller-visible summary after the fixpoint.
func (ft *FT) summary(nparams int) Summary {
	s := Summary{Ret: ft.nonLocal(ft.retSet), Fresh: hasLocal(ft.retSet), Stores: map[int]RootSet{}}
	for i := 0; i < nparams; i++ {
		p := Root{Kind: KParam, I: i}
		reach := ft.nonLocal(ft.closure(rs(p)))
		delete(reach, p.key())
		if len(reach) > 0 {
			s.Stores[i] = reach
		}
	}
	return s
}

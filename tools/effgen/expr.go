package main

import (
	"go/ast"
	"go/token"
)

var unknownSet = rs(Root{Kind: KUnknown})

// pkgAlias reports whether id denotes an imported package here.
func (ft *FT) pkgAlias(id *ast.Ident) (string, bool) {
	if id.Obj != nil {
		return "", false
	}
	if _, ok := ft.pk.Vars[id.Name]; ok {
		return "", false
	}
	k, ok := ft.pk.Imports[id.Name]
	return k, ok
}

func (ft *FT) globalVal(pkg, name string) Val {
	g := Root{Kind: KGlobal, Name: pkg + "." + name}
	t := globalType(pkg, name)
	trusted := false
	if lt, ok := libGlobals[pkg+"."+name]; ok {
		t, trusted = lt, true
	}
	ft.read(rs(g))
	return Val{T: t, Pts: rs(g), Trusted: trusted}
}

// base returns the object set on which a field/index of x operates.
func (ft *FT) base(x ast.Expr) (Type, RootSet) {
	v := ft.eval(x)
	u := v.T.under()
	if u.E == nil {
		return v.T, v.Pts
	}
	if u.isPtr() || u.isSlice() {
		return v.T, v.Pts
	}
	if _, ok := u.E.(*ast.MapType); ok {
		return v.T, v.Pts
	}
	if v.T.isObjectValue() {
		return v.T, ft.addr(x)
	}
	return v.T, v.Pts
}

// addr: the objects in which the lvalue e lives.
func (ft *FT) addr(e ast.Expr) RootSet {
	switch e := strip(e).(type) {
	case *ast.Ident:
		if e.Obj != nil {
			if vr := ft.vars[e.Obj]; vr != nil {
				if vr.Obj != nil {
					return rs(*vr.Obj)
				}
				return unknownSet.copy()
			}
		}
		if _, ok := ft.pk.Vars[e.Name]; ok {
			return rs(Root{Kind: KGlobal, Name: ft.pk.Dir + "." + e.Name})
		}
	case *ast.SelectorExpr:
		if id, ok := e.X.(*ast.Ident); ok {
			if k, ok := ft.pkgAlias(id); ok {
				return rs(Root{Kind: KGlobal, Name: k + "." + e.Sel.Name})
			}
		}
		_, s := ft.base(e.X)
		return s
	case *ast.IndexExpr:
		_, s := ft.base(e.X)
		return s
	case *ast.StarExpr:
		return ft.eval(e.X).Pts
	case *ast.CompositeLit:
		v := ft.eval(e)
		r := ft.alloc(e.Type)
		ft.addCont(r, "*", v.Pts)
		return rs(r)
	}
	return unknownSet.copy()
}

func (ft *FT) eval(e ast.Expr) Val {
	switch e := e.(type) {
	case nil:
		return scalar(unknownT)
	case *ast.ParenExpr:
		return ft.eval(e.X)
	case *ast.BasicLit:
		switch e.Kind {
		case token.STRING:
			return scalar(identT("string"))
		case token.FLOAT:
			return scalar(identT("float64"))
		}
		return scalar(identT("int"))
	case *ast.Ident:
		return ft.evalIdent(e)
	case *ast.CompositeLit:
		return ft.evalComposite(e)
	case *ast.UnaryExpr:
		if e.Op == token.AND {
			if cl, ok := strip(e.X).(*ast.CompositeLit); ok {
				return ft.evalAddrComposite(e, cl)
			}
			t := ft.typeOf(e.X)
			return Val{T: t.ptrTo(), Pts: ft.addr(e.X)}
		}
		v := ft.eval(e.X)
		if e.Op == token.ARROW {
			// <-ch: what a channel delivers was put there by someone else; a received
			// reference may point anywhere (fail closed)
			ft.readVal(v)
			et := unknownT
			if ct, ok := v.T.under().E.(*ast.ChanType); ok {
				et = Type{E: ct.Value, Pkg: v.T.under().Pkg}
			}
			if et.hasRef() {
				return Val{T: et, Pts: unknownSet.copy()}
			}
			return scalar(et)
		}
		return scalar(v.T)
	case *ast.StarExpr:
		v := ft.eval(e.X)
		ft.readVal(v)
		t := v.T.deref()
		if v.T.E == nil {
			t = unknownT
		}
		if t.hasRef() {
			return Val{T: t, Pts: ft.load(v.Pts, "*")}
		}
		return scalar(t)
	case *ast.SelectorExpr:
		if id, ok := e.X.(*ast.Ident); ok {
			if k, ok := ft.pkgAlias(id); ok {
				if p := prog.Pkgs[k]; p != nil && p.Consts[e.Sel.Name] {
					return scalar(identT("int"))
				}
				return ft.globalVal(k, e.Sel.Name)
			}
		}
		bt, s := ft.base(e.X)
		ft.readRef(s)
		t := bt.field(e.Sel.Name)
		if t.hasRef() {
			return Val{T: t, Pts: ft.load(s, e.Sel.Name)}
		}
		return scalar(t)
	case *ast.IndexExpr:
		ft.eval(e.Index)
		bt, s := ft.base(e.X)
		ft.readRef(s)
		t := bt.elem()
		if u := bt.under(); u.E != nil {
			if m, ok := u.E.(*ast.MapType); ok {
				t = Type{E: m.Value, Pkg: u.Pkg}
			}
			if id, ok := u.E.(*ast.Ident); ok && id.Name == "string" {
				return scalar(identT("byte"))
			}
		}
		if t.hasRef() {
			return Val{T: t, Pts: ft.load(s, "*")}
		}
		return scalar(t)
	case *ast.SliceExpr:
		ft.eval(e.Low)
		ft.eval(e.High)
		ft.eval(e.Max)
		bt, s := ft.base(e.X)
		if u := bt.under(); u.E != nil {
			if id, ok := u.E.(*ast.Ident); ok && id.Name == "string" {
				return scalar(bt)
			}
		}
		if bt.isSlice() {
			return Val{T: bt, Pts: s}
		}
		el := bt.elem()
		if el.E == nil {
			return Val{T: unknownT, Pts: s}
		}
		return Val{T: Type{E: &ast.ArrayType{Elt: el.E}, Pkg: el.Pkg}, Pts: s}
	case *ast.BinaryExpr:
		l := ft.eval(e.X)
		ft.eval(e.Y)
		switch e.Op {
		case token.EQL, token.NEQ, token.LSS, token.GTR, token.LEQ, token.GEQ, token.LAND, token.LOR:
			return scalar(identT("bool"))
		}
		return scalar(l.T)
	case *ast.TypeAssertExpr:
		v := ft.eval(e.X)
		if e.Type == nil {
			return v
		}
		t := Type{E: e.Type, Pkg: ft.pk.Dir}
		if t.hasRef() {
			return Val{T: t, Pts: v.Pts, Trusted: v.Trusted}
		}
		return scalar(t)
	case *ast.CallExpr:
		vs := ft.evalCall(e)
		if len(vs) == 0 {
			return scalar(unknownT)
		}
		return vs[0]
	case *ast.KeyValueExpr:
		return ft.eval(e.Value)
	case *ast.FuncLit:
		// closures are not analysed: anything may happen
		ft.write(unknownSet.copy(), "")
		return Val{T: unknownT, Pts: unknownSet.copy()}
	}
	ft.write(unknownSet.copy(), "")
	return Val{T: unknownT, Pts: unknownSet.copy()}
}

func (ft *FT) evalIdent(e *ast.Ident) Val {
	if e.Name == "_" {
		return scalar(identT("int"))
	}
	if e.Obj == nil && !ft.pk.declares(e.Name) { // predeclared, unless the package scope shadows it
		switch e.Name {
		case "nil":
			return scalar(unknownT)
		case "true", "false":
			return scalar(identT("bool"))
		case "iota":
			return scalar(identT("int"))
		}
	}
	if e.Obj != nil {
		if vr := ft.vars[e.Obj]; vr != nil {
			if vr.Obj != nil {
				ft.read(rs(*vr.Obj))
				if vr.T.hasRef() {
					return Val{T: vr.T, Pts: ft.load(rs(*vr.Obj), "*")}
				}
				return scalar(vr.T)
			}
			return Val{T: vr.T, Pts: vr.Pts.copy(), NoRef: vr.ZeroDecl && !vr.GotLost && len(vr.Pts) == 0,
				Trusted: !vr.IfaceUntrusted}
		}
		if e.Obj.Kind == ast.Con {
			return scalar(identT("int"))
		}
		if e.Obj.Kind == ast.Var {
			if _, ok := ft.pk.Vars[e.Name]; ok {
				return ft.globalVal(ft.pk.Dir, e.Name)
			}
			// a local not yet seen in this pass: fail closed on use
			return Val{T: unknownT, Pts: RootSet{}}
		}
	}
	if ft.pk.Consts[e.Name] {
		return scalar(identT("int"))
	}
	if _, ok := ft.pk.Vars[e.Name]; ok {
		return ft.globalVal(ft.pk.Dir, e.Name)
	}
	return scalar(unknownT)
}

// typeOf evaluates e only for its type (effects are discarded).
func (ft *FT) typeOf(e ast.Expr) Type {
	n := len(ft.body)
	t := ft.eval(e).T
	ft.body = ft.body[:n]
	return t
}

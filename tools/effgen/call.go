package main

import (
	"go/ast"
)

func isBuiltinFunc(n string) bool {
	switch n {
	case "len", "cap", "copy", "append", "make", "new", "panic", "delete", "print", "println", "min", "max":
		return true
	}
	return false
}

// typeExpr reports whether fun (the Fun of a CallExpr) is a type, i.e. the
// call is a conversion, and returns that type.
func (ft *FT) typeExpr(fun ast.Expr) (Type, bool) {
	switch f := strip(fun).(type) {
	case *ast.ArrayType, *ast.MapType, *ast.InterfaceType, *ast.FuncType, *ast.ChanType, *ast.StructType:
		return Type{E: f, Pkg: ft.pk.Dir}, true
	case *ast.StarExpr:
		if t, ok := ft.typeExpr(f.X); ok {
			return t.ptrTo(), true
		}
		// (*pkg.T)(x) with a library package: necessarily a conversion
		if sel, ok := strip(f.X).(*ast.SelectorExpr); ok {
			if id, ok := sel.X.(*ast.Ident); ok {
				if _, ok := ft.pkgAlias(id); ok {
					return Type{E: f, Pkg: ft.pk.Dir}, true
				}
			}
		}
	case *ast.Ident:
		if f.Obj != nil && f.Obj.Kind != ast.Typ {
			return unknownT, false
		}
		if isBuiltinType(f.Name) && f.Obj == nil && !ft.pk.declares(f.Name) {
			return identT(f.Name), true
		}
		if _, ok := ft.pk.Types[f.Name]; ok {
			return Type{E: f, Pkg: ft.pk.Dir}, true
		}
	case *ast.SelectorExpr:
		if id, ok := f.X.(*ast.Ident); ok {
			if k, ok := ft.pkgAlias(id); ok {
				if p := prog.Pkgs[k]; p != nil {
					if _, ok := p.Types[f.Sel.Name]; ok {
						return Type{E: &ast.Ident{Name: f.Sel.Name}, Pkg: k}, true
					}
				}
			}
		}
	}
	return unknownT, false
}

// evalArgs evaluates the arguments of a call.  f(g()) with a multi-valued repo
// function g passes ALL results of g, in order (ft.nres is the number of
// results of the repo call that has just been evaluated, 1 otherwise).
func (ft *FT) evalArgs(args []ast.Expr) []Val {
	if len(args) == 1 {
		if inner, ok := strip(args[0]).(*ast.CallExpr); ok {
			vs := ft.evalCall(inner)
			if n := ft.nres; n > 1 && n <= len(vs) {
				ft.nres = 1
				return vs[:n]
			}
			ft.nres = 1
			if len(vs) == 0 {
				return []Val{scalar(unknownT)}
			}
			return vs[:1]
		}
	}
	out := make([]Val, len(args))
	for i, a := range args {
		out[i] = ft.eval(a)
	}
	return out
}

func (ft *FT) evalCall(c *ast.CallExpr) []Val {
	ft.nres = 1
	if t, ok := ft.typeExpr(c.Fun); ok && len(c.Args) == 1 {
		return []Val{ft.convert(c, t)}
	}
	switch f := strip(c.Fun).(type) {
	case *ast.Ident:
		if f.Obj == nil && isBuiltinFunc(f.Name) && !ft.pk.declares(f.Name) {
			return ft.builtin(c, f.Name)
		}
		if f.Obj == nil || f.Obj.Kind == ast.Fun {
			if _, ok := ft.pk.Funcs[f.Name]; ok {
				return ft.repoCall(c, ft.pk.Dir, f.Name, nil, ft.evalArgs(c.Args))
			}
		}
	case *ast.SelectorExpr:
		if id, ok := f.X.(*ast.Ident); ok {
			if k, ok := ft.pkgAlias(id); ok {
				if p := prog.Pkgs[k]; p != nil {
					if _, ok := p.Funcs[f.Sel.Name]; ok {
						return ft.repoCall(c, k, f.Sel.Name, nil, ft.evalArgs(c.Args))
					}
				}
				if sig, ok := libFuncs[k+"."+f.Sel.Name]; ok {
					args := ft.evalArgs(c.Args)
					switch k + "." + f.Sel.Name {
					case "fmt.Sprintf", "fmt.Errorf": // call the String / Error methods of the operands (trust.go)
						if ft.fmtOperands(c, args) {
							return ft.unknownCall(args)
						}
					case "io.ReadFull": // r.Read is a dynamic call unless r is the library's rand.Reader
						if len(args) == 0 || !args[0].Trusted {
							return ft.unknownCall(args)
						}
					}
					return ft.libCall(c, sig, "", unknownT, nil, args)
				}
				return ft.unknownCall(ft.evalArgs(c.Args))
			}
		}
		return ft.methodCall(c, f)
	}
	ft.eval(c.Fun)
	return ft.unknownCall(ft.evalArgs(c.Args))
}

// unknownCall: a call we know nothing about may write everything it can reach.
func (ft *FT) unknownCall(args []Val) []Val {
	for _, a := range args {
		ft.read(a.Pts)
	}
	ft.write(unknownSet.copy(), "")
	return []Val{{T: unknownT, Pts: unknownSet.copy()}, {T: unknownT, Pts: unknownSet.copy()}}
}

func (ft *FT) convert(c *ast.CallExpr, t Type) Val {
	v := ft.eval(c.Args[0])
	from := v.T.under()
	// string <-> []byte conversions allocate
	if t.isSlice() && from.E != nil {
		if id, ok := from.E.(*ast.Ident); ok && id.Name == "string" {
			return Val{T: t, Pts: rs(ft.alloc(c))}
		}
	}
	if !t.hasRef() {
		ft.readVal(v)
		return scalar(t)
	}
	// []T(x) of a reference-free x (string, constant) allocates
	if t.isSlice() && len(v.Pts) == 0 && !lostRef(v) {
		return Val{T: t, Pts: rs(ft.alloc(c))}
	}
	return Val{T: t, Pts: v.Pts}
}

func (ft *FT) builtin(c *ast.CallExpr, name string) []Val {
	switch name {
	case "new":
		t := Type{E: c.Args[0], Pkg: ft.pk.Dir}
		return []Val{{T: t.ptrTo(), Pts: rs(ft.alloc(c))}}
	case "make":
		t := Type{E: c.Args[0], Pkg: ft.pk.Dir}
		ft.evalArgs(c.Args[1:])
		return []Val{{T: t, Pts: rs(ft.alloc(c))}}
	case "len", "cap", "min", "max", "print", "println", "panic":
		for _, a := range ft.evalArgs(c.Args) {
			ft.readVal(a)
		}
		return []Val{scalar(identT("int"))}
	case "delete": // delete(m, k) removes an entry: a write to the map object
		as := ft.evalArgs(c.Args)
		for _, a := range as[1:] {
			ft.readVal(a)
		}
		if len(as) > 0 {
			ft.writeVal(as[0], "*")
		}
		return []Val{scalar(identT("int"))}
	case "copy":
		as := ft.evalArgs(c.Args)
		ft.readVal(as[1])
		ft.store(as[0].Pts, "*", ft.load(as[1].Pts, "*"))
		return []Val{scalar(identT("int"))}
	case "append":
		as := ft.evalArgs(c.Args)
		// the result is either the old backing array (written) or a fresh one
		r := ft.alloc(c)
		res := as[0].Pts.copy()
		res[r.key()] = r
		ft.addCont(r, "*", ft.load(as[0].Pts, "*"))
		for i, a := range as[1:] {
			v := a.Pts
			if c.Ellipsis.IsValid() && i == len(as)-2 {
				ft.readVal(a)
				v = ft.load(a.Pts, "*")
			}
			ft.store(res, "*", v)
		}
		if len(as) == 1 {
			ft.write(res, "*")
		}
		return []Val{{T: as[0].T, Pts: res}}
	}
	return ft.unknownCall(ft.evalArgs(c.Args))
}

// libCall applies a trusted library effect signature.  recv == nil for
// package-level functions.
func (ft *FT) libCall(site ast.Node, sig libSig, fld string, recvT Type, recv RootSet, args []Val) []Val {
	widx := -1
	switch sig.Eff {
	case "W0":
		widx = 0
	case "W1":
		widx = 1
	}
	for i, a := range args {
		if i != widx {
			ft.readVal(a)
		}
	}
	isMethod := recv != nil
	switch sig.Eff {
	case "W":
		ft.writeRef(recv, fld)
	case "W+01":
		ft.writeRef(recv, fld)
		for i, a := range args {
			if i < 2 && !(a.NoRef && len(a.Pts) == 0) { // nil is allowed for x, y
				ft.writeVal(a, "")
			}
		}
	default:
		if isMethod {
			ft.readRef(recv)
		}
		if widx >= 0 && widx < len(args) {
			ft.writeVal(args[widx], "")
		}
	}
	t := sig.T
	var res Val
	switch sig.Res {
	case "recv":
		if t.E == nil {
			t = recvT
		}
		res = Val{T: t, Pts: recv.copy()}
	case "arg0":
		res = Val{T: t, Pts: RootSet{}}
		if len(args) > 0 {
			res.Pts = args[0].Pts.copy()
			res.NoRef = args[0].NoRef
		}
	case "fresh", "fresh+arg0":
		res = Val{T: t, Pts: rs(ft.alloc(site)), Trusted: !isMethod}
		if sig.Res == "fresh+arg0" && len(args) > 0 {
			ft.writeVal(args[0], "")
			res.Pts.addAll(args[0].Pts)
		}
	default:
		res = scalar(t)
	}
	return []Val{res, scalar(identT("bool"))}
}

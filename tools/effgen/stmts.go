package main

import (
	"go/ast"
	"go/token"
)

func (ft *FT) nested(f func()) {
	ft.depth++
	f()
	ft.depth--
}

func (ft *FT) block(b *ast.BlockStmt) {
	if b == nil {
		return
	}
	for _, s := range b.List {
		ft.stmt(s)
	}
}

// assign stores value v into the lvalue lhs.
func (ft *FT) assign(lhs ast.Expr, v Val, define bool) {
	switch l := strip(lhs).(type) {
	case *ast.Ident:
		if l.Name == "_" {
			return
		}
		if l.Obj != nil {
			defer ft.noteTrust(l.Obj, v)
			if vr := ft.vars[l.Obj]; vr != nil && define {
				ft.declare(l, v.T, v.Pts)
				return
			} else if vr != nil {
				if vr.T.E == nil && v.T.E != nil {
					vr.T = v.T
					ft.changed = true
				}
				if lostRef(v) && !vr.GotLost {
					vr.GotLost = true
					ft.changed = true
				}
				if vr.Obj != nil {
					ft.store(rs(*vr.Obj), "*", v.Pts)
				} else if vr.Pts.addAll(v.Pts) {
					ft.changed = true
				}
				return
			}
			if define || l.Obj.Kind == ast.Var && ft.pk.Vars[l.Name] == nil {
				ft.declare(l, v.T, v.Pts)
				return
			}
		}
		if _, ok := ft.pk.Vars[l.Name]; ok {
			g := Root{Kind: KGlobal, Name: ft.pk.Dir + "." + l.Name}
			ft.store(rs(g), "", v.Pts)
			return
		}
		ft.write(unknownSet.copy(), "")
	case *ast.SelectorExpr:
		if id, ok := l.X.(*ast.Ident); ok {
			if k, ok := ft.pkgAlias(id); ok {
				ft.store(rs(Root{Kind: KGlobal, Name: k + "." + l.Sel.Name}), "", v.Pts)
				return
			}
		}
		_, s := ft.base(l.X)
		ft.store(s, l.Sel.Name, v.Pts)
	case *ast.IndexExpr:
		ft.eval(l.Index)
		_, s := ft.base(l.X)
		ft.store(s, "*", v.Pts)
	case *ast.StarExpr:
		ft.store(ft.eval(l.X).Pts, "*", v.Pts)
	default:
		ft.write(unknownSet.copy(), "")
	}
}

func (ft *FT) assignStmt(s *ast.AssignStmt) {
	define := s.Tok == token.DEFINE
	if s.Tok != token.ASSIGN && !define {
		// op-assignment: x op= y
		ft.eval(s.Lhs[0])
		v := ft.eval(s.Rhs[0])
		ft.assign(s.Lhs[0], scalar(v.T), false)
		return
	}
	var vals []Val
	if len(s.Rhs) == 1 && len(s.Lhs) > 1 {
		switch r := strip(s.Rhs[0]).(type) {
		case *ast.CallExpr:
			vals = ft.evalCall(r)
		default: // v, ok := x.(T) / m[k] / <-ch
			v := ft.eval(r)
			vals = []Val{v, scalar(identT("bool"))}
		}
		for len(vals) < len(s.Lhs) {
			vals = append(vals, Val{T: unknownT, Pts: unknownSet.copy()})
		}
	} else {
		for _, r := range s.Rhs {
			vals = append(vals, ft.eval(r))
		}
	}
	for i, l := range s.Lhs {
		ft.assign(l, vals[i], define)
	}
}

func (ft *FT) declStmt(d *ast.GenDecl) {
	if d.Tok != token.VAR {
		return
	}
	for _, sp := range d.Specs {
		vs, ok := sp.(*ast.ValueSpec)
		if !ok {
			continue
		}
		ft.valueSpec(vs, false)
	}
}

// valueSpec handles "var a, b T = x, y" for locals (global=false) and for
// package-level variables (global=true: the variables are RGlobal roots).
func (ft *FT) valueSpec(vs *ast.ValueSpec, global bool) {
	var vals []Val
	if len(vs.Values) == 1 && len(vs.Names) > 1 {
		if c, ok := strip(vs.Values[0]).(*ast.CallExpr); ok {
			vals = ft.evalCall(c)
		}
	} else {
		for _, e := range vs.Values {
			vals = append(vals, ft.eval(e))
		}
	}
	for i, n := range vs.Names {
		v := scalar(unknownT)
		if i < len(vals) {
			v = vals[i]
		}
		if vs.Type != nil {
			v.T = Type{E: vs.Type, Pkg: ft.pk.Dir}
		}
		if n.Name == "_" {
			continue
		}
		if global {
			g := Root{Kind: KGlobal, Name: ft.pk.Dir + "." + n.Name}
			if gv := ft.pk.Vars[n.Name]; gv != nil && gv.T.E == nil {
				gv.T = v.T
			}
			if len(vs.Values) > 0 {
				ft.store(rs(g), "", v.Pts)
			}
			continue
		}
		ft.declare(n, v.T, v.Pts)
		if len(vs.Values) != 0 {
			ft.noteTrust(n.Obj, v)
		}
		if len(vs.Values) == 0 && n.Obj != nil {
			if vr := ft.vars[n.Obj]; vr != nil && !vr.ZeroDecl {
				vr.ZeroDecl = true
				ft.changed = true
			}
		}
	}
}

func (ft *FT) returnStmt(s *ast.ReturnStmt) {
	out := RootSet{}
	if len(s.Results) == 0 {
		for _, o := range ft.results {
			if vr := ft.vars[o]; vr != nil && vr.T.hasRef() {
				if vr.Obj != nil {
					out.addAll(ft.load(rs(*vr.Obj), "*"))
				} else {
					out.addAll(vr.Pts)
				}
			}
		}
	} else if len(s.Results) == 1 && len(ft.resT) > 1 {
		if c, ok := strip(s.Results[0]).(*ast.CallExpr); ok {
			for _, v := range ft.evalCall(c) {
				if v.T.hasRef() {
					out.addAll(v.Pts)
				}
			}
		}
	} else {
		for i, r := range s.Results {
			v := ft.eval(r)
			t := v.T
			if i < len(ft.resT) && (t.E == nil || !t.hasRef()) {
				t = ft.resT[i]
			}
			if id, ok := strip(r).(*ast.Ident); ok && id.Name == "nil" {
				continue
			}
			if t.hasRef() {
				out.addAll(v.Pts)
			}
		}
	}
	ft.runDefers()
	direct := out.list()
	out = ft.closure(out)
	if ft.retSet.addAll(out) {
		ft.changed = true
	}
	ft.emit(Instr{Op: "ret", Roots: out.list(), Hint: direct})
}

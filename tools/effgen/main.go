// effgen: translate the Go sources of go-iden3-crypto into a small effect IR
// (Coq file Gen/EffectsIR.v) on which Model/Effects.v defines a cell-level
// semantics and Proofs/EffectsVerdict.v decides purity (C16), absence of
// package-level state (C17) and "receiver holds the result" (C19).
//
// usage: effgen <repo> <verif>      writes <verif>/coq/Gen/EffectsIR.v
//
// TRANSLATION RULES (see README.md for the long version)
//
// Roots (abstract locations; a root denotes a *region* of cells):
//
//	RParam i    everything reachable, at entry, from parameter i (receiver = 0)
//	RGlobal g   everything reachable from package-level variable "pkg.Name"
//	RLocal k    objects allocated at syntactic site k of this function
//	            (new, make, &T{}, []T{}, big.NewInt, ff.NewElement, append,
//	            string->[]byte, a value-typed local array/struct variable, a
//	            by-value array/struct parameter copy) or, for a call site k,
//	            the objects returned by the callee
//	RUnknown    anything (closures, recursion, unknown callee, go statement)
//
// Points-to tracking (flow-insensitive, iterated to a fixpoint per function):
//   - every reference-typed local variable has a set of roots; `x = e`,
//     `x := e`, range, multi-assign add pts(e) to pts(x);
//   - objects allocated here are field-sensitive: `o.f = e`, `o[i] = e`,
//     `*o = e`, composite-literal fields add pts(e) to contains[o][f];
//     a load `o.f` from a local object yields contains[o][f]; a load from a
//     Param/Global/Unknown/call-result root stays in that region;
//   - call arguments and return values are closed under contains (the callee
//     sees the region); by-value parameters without references pass nothing;
//   - callee summaries (roots the result may alias, whether it may be fresh,
//     what a callee may store into its parameters) are substituted at the
//     call site; the substituted non-local roots are emitted as the call's
//     `hint`, which Effects.instr_ok re-checks against the callee's body.
//
// Instructions (flattened; flag must = statement is not nested in if/for/
// switch/range/defer, so it runs on every path that reaches the end):
//
//	IAlloc k              allocation site
//	IRead roots           objects read (field/index/deref loads, library reads)
//	IWrite roots fld      in-place mutation / field, index or pointer store;
//	                      library methods by the trusted table in sigs.go
//	ICall f args k hint   call of a translated function
//	IReturn direct reach  direct = what the returned references point to,
//	                      reach = its closure under contains (nil/error/value
//	                      results contribute nothing)
//
// Fail closed: an access through a reference whose points-to set is empty
// is emitted as an access to RUnknown (Effects.ok becomes false).  defer:
// effects are emitted at every exit following the defer statement.
// sync.Pool: Get() = fresh allocation owned until Put (ASSUMPTION), Put has
// no effect.  Assembly routines: table asmStubs in sigs.go.
//
// Package-level `var x = e` initialisers become the synthetic function
// "pkg.init#vars", init() functions "pkg.init#N"; both are listed in
// init_names and are exempt from the no-global-write rule.
package main

import (
	"fmt"
	"os"
	"path/filepath"
	"sort"
)

func main() {
	if len(os.Args) != 3 {
		fmt.Fprintln(os.Stderr, "usage: effgen <repo> <verif>")
		os.Exit(2)
	}
	var err error
	prog, err = loadProg(os.Args[1])
	if err != nil {
		fmt.Fprintln(os.Stderr, "effgen:", err)
		os.Exit(1)
	}
	var inits []*Func
	for _, dir := range repoPkgs {
		p := prog.Pkgs[dir]
		inits = append(inits, translateVarInits(p))
		for i, fd := range p.Inits {
			inits = append(inits, translateFunc(p, fmt.Sprintf("%s.init#%d", dir, i), fd, true))
		}
		if err := exportedFuncVars(p); err != nil {
			fmt.Fprintln(os.Stderr, "effgen:", err)
			os.Exit(1)
		}
		names := make([]string, 0, len(p.Funcs))
		for n := range p.Funcs {
			names = append(names, n)
		}
		sort.Strings(names)
		for _, n := range names {
			getFunc(dir, n)
		}
	}
	all := append(append([]*Func{}, funcOrder...), inits...)
	out := emitCoq(all)
	dst := filepath.Join(os.Args[2], "coq", "Gen", "EffectsIR.v")
	if old, err := os.ReadFile(dst); err == nil && string(old) == out {
		fmt.Println("effgen: EffectsIR.v unchanged,", len(all), "functions")
		return
	}
	if err := os.WriteFile(dst, []byte(out), 0o644); err != nil {
		fmt.Fprintln(os.Stderr, "effgen:", err)
		os.Exit(1)
	}
	fmt.Println("effgen: wrote", dst, "-", len(all), "functions")
}

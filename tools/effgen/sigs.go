package main

// Trusted effect signatures of library calls (math/big, ff, ffg, hashes, hex...).
//
// Eff:  "W"  the receiver object is written, all arguments are read
//       "R"  receiver and arguments are only read
//       "W0" argument 0 is written, receiver and other arguments are read
// Res:  "recv" the result is the receiver pointer, "arg0" the result is
//       argument 0, "fresh" a freshly allocated object, "fresh+arg0" (append
//       style), "scalar" no reference.

type libSig struct {
	Eff string
	Res string
	T   Type // result type (zero: receiver type for "recv", unknown otherwise)
}

var bytesT = Type{E: sliceOf("byte"), Pkg: ""}

var libMethods = map[string]map[string]libSig{}
var libFuncs = map[string]libSig{}

func addMethods(typ string, eff, res string, t Type, names ...string) {
	if libMethods[typ] == nil {
		libMethods[typ] = map[string]libSig{}
	}
	for _, n := range names {
		libMethods[typ][n] = libSig{Eff: eff, Res: res, T: t}
	}
}

func init() {
	intT := identT("int")
	// math/big.Int
	addMethods("big.Int", "W", "recv", Type{}, "Set", "Add", "Sub", "Mul", "Mod", "ModInverse",
		"ModSqrt", "Lsh", "Rsh", "SetBytes", "SetUint64", "SetInt64", "Exp", "Neg", "Abs",
		"Div", "Quo", "Rem", "And", "Or", "Xor", "Not", "SetBit", "Sqrt", "GCD", "SetBits")
	addMethods("big.Int", "W", "recv", Type{}, "SetString") // (z, ok)
	addMethods("big.Int", "R", "scalar", intT, "Cmp", "CmpAbs", "Sign", "Bit", "BitLen", "Int64",
		"Uint64", "IsInt64", "IsUint64", "ProbablyPrime", "TrailingZeroBits")
	addMethods("big.Int", "R", "scalar", identT("string"), "String", "Text")
	addMethods("big.Int", "R", "fresh", bytesT, "Bytes")
	// Bits exposes the internal word slice: the result aliases the receiver.
	addMethods("big.Int", "R", "recv", Type{E: sliceOf("uint"), Pkg: ""}, "Bits")
	addMethods("big.Int", "W0", "arg0", bytesT, "FillBytes")
	// ff.Element / ffg.Element
	for _, f := range []string{"ff.Element", "ffg.Element"} {
		addMethods(f, "W", "recv", Type{}, "SetBigInt", "SetUint64", "SetZero", "SetOne", "Set",
			"Add", "Sub", "Mul", "Square", "Neg", "Double", "Exp", "Inverse", "Div", "FromMont",
			"ToMont", "SetRandom", "SetString", "SetBytes", "Sqrt", "MulAssign", "AddAssign",
			"SubAssign", "Halve", "SetInterface")
		addMethods(f, "R", "scalar", intT, "Equal", "IsZero", "Cmp", "IsUint64", "Legendre",
			"LexicographicallyLargest", "ToUint64Regular", "Uint64")
		addMethods(f, "R", "scalar", identT("string"), "String")
		addMethods(f, "R", "fresh", bytesT, "Bytes")
		addMethods(f, "W0", "arg0", libT("big", "Int", true), "ToBigIntRegular", "ToBigInt")
	}
	// hash.Hash (blake512, sha3, sha256)
	addMethods("hash.Hash", "W", "scalar", intT, "Write", "Reset")
	addMethods("hash.Hash", "R", "fresh+arg0", bytesT, "Sum")
	addMethods("hash.Hash", "R", "scalar", intT, "Size", "BlockSize")

	hashT := libT("hash", "Hash", true)
	errT := identT("error")
	strT := identT("string")
	libFuncs["big.NewInt"] = libSig{"R", "fresh", libT("big", "Int", true)}
	libFuncs["ff.NewElement"] = libSig{"R", "fresh", libT("ff", "Element", true)}
	libFuncs["ffg.NewElement"] = libSig{"R", "fresh", libT("ffg", "Element", true)}
	libFuncs["ffg.NewElementFromUint64"] = libSig{"R", "fresh", libT("ffg", "Element", true)}
	libFuncs["blake512.New"] = libSig{"R", "fresh", hashT}
	libFuncs["sha3.NewLegacyKeccak256"] = libSig{"R", "fresh", hashT}
	libFuncs["sha256.New"] = libSig{"R", "fresh", hashT}
	libFuncs["fmt.Errorf"] = libSig{"R", "scalar", errT}
	libFuncs["errors.New"] = libSig{"R", "scalar", errT}
	libFuncs["fmt.Sprintf"] = libSig{"R", "scalar", strT}
	libFuncs["hex.EncodeToString"] = libSig{"R", "scalar", strT}
	libFuncs["hex.DecodeString"] = libSig{"R", "fresh", bytesT}
	libFuncs["hex.Decode"] = libSig{"W0", "scalar", intT}
	libFuncs["strings.TrimPrefix"] = libSig{"R", "scalar", strT}
	libFuncs["bytes.HasPrefix"] = libSig{"R", "scalar", identT("bool")}
	libFuncs["bytes.Equal"] = libSig{"R", "scalar", identT("bool")}
	libFuncs["rand.Read"] = libSig{"W0", "scalar", intT}
}

package main

// Trusted effect signatures of library calls (math/big, ff, ffg, hashes, hex...).
//
// Eff:  "W"  the receiver object is written, all arguments are read
//       "W+01" the receiver AND arguments 0 and 1 are written (big.Int.GCD(x, y, a, b)
//            stores the Bezout cofactors into x and y)
//       "R"  receiver and arguments are only read
//       "W0" argument 0 is written, receiver and other arguments are read
//       "W1" argument 1 is written (io.ReadFull(r, buf))
// Res:  "recv" the result is the receiver pointer, "arg0" the result is
//       argument 0, "fresh" a freshly allocated object, "fresh+arg0" (append
//       style), "scalar" no reference.

type libSig struct {
	Eff string
	Res string
	T   Type // result type (zero: receiver type for "recv", unknown otherwise)
}

var bytesT = Type{E: sliceOf("byte"), Pkg: ""}

var libMethods = map[string]map[string]libSig{}
var libFuncs = map[string]libSig{}

func addMethods(typ string, eff, res string, t Type, names ...string) {
	if libMethods[typ] == nil {
		libMethods[typ] = map[string]libSig{}
	}
	for _, n := range names {
		libMethods[typ][n] = libSig{Eff: eff, Res: res, T: t}
	}
}

func init() {
	intT := identT("int")
	// math/big.Int
	addMethods("big.Int", "W", "recv", Type{}, "Set", "Add", "Sub", "Mul", "Mod", "ModInverse",
		"ModSqrt", "Lsh", "Rsh", "SetBytes", "SetUint64", "SetInt64", "Exp", "Neg", "Abs",
		"Div", "Quo", "Rem", "And", "Or", "Xor", "Not", "SetBit", "Sqrt")
	// Reviewed against the math/big documentation: of the methods listed in this
	// table only GCD writes ARGUMENTS (x, y); DivMod / QuoRem (which write m / r)
	// and SetBits (after which the receiver SHARES the storage of its argument:
	// later writes to the receiver write the argument's array) are deliberately
	// NOT listed: an unlisted method is an unknown call.
	addMethods("big.Int", "W+01", "recv", Type{}, "GCD")
	addMethods("big.Int", "W", "recv", Type{}, "SetString") // (z, ok)
	addMethods("big.Int", "R", "scalar", intT, "Cmp", "CmpAbs", "Sign", "Bit", "BitLen", "Int64",
		"Uint64", "IsInt64", "IsUint64", "ProbablyPrime", "TrailingZeroBits")
	addMethods("big.Int", "R", "scalar", identT("string"), "String", "Text")
	addMethods("big.Int", "R", "fresh", bytesT, "Bytes")
	// Bits exposes the internal word slice: the result aliases the receiver.
	addMethods("big.Int", "R", "recv", Type{E: sliceOf("uint"), Pkg: ""}, "Bits")
	addMethods("big.Int", "W0", "arg0", bytesT, "FillBytes")
	// hash.Hash (blake512, sha3, sha256)
	addMethods("hash.Hash", "W", "scalar", intT, "Write", "Reset")
	addMethods("hash.Hash", "R", "fresh+arg0", bytesT, "Sum")
	addMethods("hash.Hash", "R", "scalar", intT, "Size", "BlockSize")

	hashT := libT("hash", "Hash", true)
	errT := identT("error")
	strT := identT("string")
	libFuncs["big.NewInt"] = libSig{"R", "fresh", libT("big", "Int", true)}
	libFuncs["blake512.New"] = libSig{"R", "fresh", hashT}
	libFuncs["sha3.NewLegacyKeccak256"] = libSig{"R", "fresh", hashT}
	libFuncs["sha256.New"] = libSig{"R", "fresh", hashT}
	libFuncs["fmt.Errorf"] = libSig{"R", "scalar", errT}
	libFuncs["errors.New"] = libSig{"R", "scalar", errT}
	libFuncs["fmt.Sprintf"] = libSig{"R", "scalar", strT}
	libFuncs["hex.EncodeToString"] = libSig{"R", "scalar", strT}
	libFuncs["hex.DecodeString"] = libSig{"R", "fresh", bytesT}
	libFuncs["hex.Decode"] = libSig{"W0", "scalar", intT}
	libFuncs["strings.TrimPrefix"] = libSig{"R", "scalar", strT}
	libFuncs["bytes.HasPrefix"] = libSig{"R", "scalar", identT("bool")}
	libFuncs["bytes.Equal"] = libSig{"R", "scalar", identT("bool")}
	libFuncs["rand.Read"] = libSig{"W0", "scalar", intT}
	libFuncs["io.ReadFull"] = libSig{"W1", "scalar", intT}
	u64 := identT("uint64")
	for _, f := range []string{"Mul64", "Add64", "Sub64", "Div64", "Rem64"} {
		libFuncs["bits."+f] = libSig{"R", "scalar", u64}
	}
	for _, f := range []string{"Len64", "Len", "TrailingZeros64", "LeadingZeros64", "OnesCount64"} {
		libFuncs["bits."+f] = libSig{"R", "scalar", intT}
	}
	libFuncs["strconv.Itoa"] = libSig{"R", "scalar", strT}
	libFuncs["strconv.FormatUint"] = libSig{"R", "scalar", strT}
	libFuncs["reflect.TypeOf"] = libSig{"R", "fresh", libT("reflect", "Type", false)}
	addMethods("reflect.Type", "R", "scalar", strT, "String", "Name")
	// encoding/binary.BigEndian / LittleEndian (values of type binary.ByteOrder)
	addMethods("binary.ByteOrder", "R", "scalar", u64, "Uint64", "Uint32", "Uint16")
	addMethods("binary.ByteOrder", "W0", "scalar", intT, "PutUint64", "PutUint32", "PutUint16")
	// sync.Pool.  ASSUMPTION: Get() returns an object that is exclusively
	// owned by the caller until Put: it is modelled as a fresh allocation
	// ("fresh"), Put(x) releases it and has no effect on the heap cells of the
	// model.  The pool variable itself is therefore only read; this is why a
	// package-level pool that is only Get/Put does not count as package state.
	addMethods("sync.Pool", "R", "fresh", Type{}, "Get")
	addMethods("sync.Pool", "R", "scalar", intT, "Put")
}

// Types of library package-level variables that the repo uses.
var libGlobals = map[string]Type{
	"binary.BigEndian":    libT("binary", "ByteOrder", false),
	"binary.LittleEndian": libT("binary", "ByteOrder", false),
	"rand.Reader":         libT("io", "Reader", false),
}

// Assembly routines (Go declarations without body, implemented in .s files):
// the parameters (by index) that the routine writes; all others are read.
// Rule: the first pointer argument (res / the element) is the destination;
// Butterfly(a, b) writes both.  A body-less function that is not listed here
// is translated as "may write anything" (RUnknown).
var asmStubs = map[string][]int{
	"ff.MulBy3":    {0},
	"ff.MulBy5":    {0},
	"ff.MulBy13":   {0},
	"ff.add":       {0},
	"ff.sub":       {0},
	"ff.neg":       {0},
	"ff.double":    {0},
	"ff.mul":       {0},
	"ff.fromMont":  {0},
	"ff.reduce":    {0},
	"ff.Butterfly": {0, 1},
}

#!/bin/bash
# Mutation self-test of the effect translator + verdict lemmas.
# Works on scratch copies only (/tmp/effrepo, /tmp/effmut); never touches /repo.
set -u
BIN=/verif/_build/bin/effgen
S=/tmp/effmut
rm -rf /tmp/effrepo $S

VERDICTS="EffectsVerdictPure EffectsVerdictState EffectsVerdictConc EffectsVerdictRecv"

diag() { # $1 = label
  mkdir -p $S/coq/Gen $S/coq/Model $S/coq/Proofs
  cp /verif/coq/Model/Effects.v $S/coq/Model/
  cp /verif/coq/Proofs/EffectsProofs.v /verif/coq/Proofs/EffectsDocumented.v $S/coq/Proofs/
  for v in $VERDICTS; do cp /verif/coq/Proofs/$v.v $S/coq/Proofs/; done
  $BIN /tmp/effrepo $S >/dev/null || { echo "$1: effgen failed"; return; }
  cat > $S/coq/Diag.v <<'EOF'
From Coq Require Import String List Bool.
Import ListNotations.
From Verif Require Import Model.Effects Gen.EffectsIR Proofs.EffectsDocumented.
Open Scope string_scope.
Eval vm_compute in ("all_exported_pure", forallb (pure_fn funcs documented) exported_names).
Eval vm_compute in ("impure", filter (fun f => negb (pure_fn funcs documented f)) exported_names).
Eval vm_compute in ("no_global_state", no_global_state funcs all_names init_names).
Eval vm_compute in ("c19", map (fun f => (f, receiver_stored funcs recv_fields f)) c19_methods).
EOF
  ( cd $S/coq && timeout 600 coqc -Q . Verif Model/Effects.v \
    && timeout 600 coqc -Q . Verif Gen/EffectsIR.v \
    && timeout 600 coqc -Q . Verif Proofs/EffectsProofs.v >/dev/null \
    && timeout 600 coqc -Q . Verif Proofs/EffectsDocumented.v \
    && echo "== $1" && timeout 600 coqc -Q . Verif Diag.v 2>&1 | tr '\n' ' ' | sed 's/ = /\n = /g; s/  */ /g'; echo
    echo -n "   verdict files:"
    for v in $VERDICTS; do
      if timeout 600 coqc -Q . Verif Proofs/$v.v >/dev/null 2>$S/err.txt; then echo -n " $v=COMPILES"; else echo -n " $v=FAILS"; fi
    done; echo )
}

fresh() { rm -rf /tmp/effrepo; cp -r /repo /tmp/effrepo; }

mutate() { # file, python replace old, new
  python3 - "$1" "$2" "$3" <<'EOF'
import sys
p, old, new = sys.argv[1:4]
s = open(p).read()
assert s.count(old) >= 1, "pattern not found: " + old
open(p, 'w').write(s.replace(old, new, 1))
EOF
}

fresh; diag "unmodified /repo"

fresh; mutate /tmp/effrepo/babyjub/babyjub.go 'b.Add(constants.One, b)' 'constants.One.Add(constants.One, b)'
diag "(i) InCurve: constants.One.Add(constants.One, b)"

fresh; mutate /tmp/effrepo/babyjub/babyjub.go 'x2 := new(big.Int).Set(p.X)' 'x2 := p.X'
diag "(ii) InCurve: x2 := p.X (defensive copy removed)"

fresh; mutate /tmp/effrepo/babyjub/babyjub.go '	res := resProj.Affine()
	p.X, p.Y = res.X, res.Y' '	res := resProj.Affine()
	p = res'
diag "(iii) Point.Mul: p = res"

fresh; mutate /tmp/effrepo/mimc7/mimc7.go 'var constants = generateConstantsData()' 'var constants = generateConstantsData()

var scratch = new(big.Int)'
mutate /tmp/effrepo/mimc7/mimc7.go '		r = new(big.Int).Add(
			new(big.Int).Add(
				r,
				arr[i],
			),' '		r = new(big.Int).Add(
			scratch.Add(
				r,
				arr[i],
			),'
diag "(iv) mimc7.Hash: package-level scratch.Add(r, arr[i])"

fresh; mutate /tmp/effrepo/babyjub/eddsa.go '	Sp := utils.BigIntLEBytes(s.S)' '	s.S.Mod(s.S, SubOrder)
	Sp := utils.BigIntLEBytes(s.S)'
diag "(v) Signature.Compress: s.S.Mod(s.S, SubOrder)"

# ---- extra mutations (not required by the task; same expectations) ----
fresh; mutate /tmp/effrepo/babyjub/babyjub.go '	p.X, p.Y = res.X, res.Y
	return p, nil' '	p.Y = res.Y
	return p, nil'
diag "(vi) Point.Decompress: only p.Y stored (stale X)"

fresh; mutate /tmp/effrepo/poseidon/poseidon.go 'func exp5(a *ff.Element) {' 'func exp5(a *ff.Element) {
	if big5 == nil {
		big5 = big.NewInt(5)
	}'
diag "(vii) poseidon.exp5: lazy initialisation of big5"

fresh; mutate /tmp/effrepo/utils/utils.go '	return (a.Cmp(constants.Q) == -1) && (a.Cmp(constants.Zero) != -1)' '	a.Mod(a, constants.Q)
	return (a.Cmp(constants.Q) == -1) && (a.Cmp(constants.Zero) != -1)'
diag "(viii) utils.CheckBigIntInField reduces its argument in place"

fresh; mutate /tmp/effrepo/babyjub/babyjub.go '	y2 := new(big.Int).Mul(p.Y, p.Y)' '	p.Y.Mod(p.Y, constants.Q)
	y2 := new(big.Int).Mul(p.Y, p.Y)'
diag "(ix) PointFromSignAndY: p.Y.Mod(...) where p.Y aliases parameter y"

fresh; mutate /tmp/effrepo/mimc7/mimc7.go '		r = new(big.Int).Mod(r, _constants.Q)' '		r = r.Mod(r, _constants.Q)'
diag "(x) mimc7.Hash: r.Mod(r, Q) in place, r may alias key"

fresh; mutate /tmp/effrepo/ff/element.go '	vv.Set(v)
	vv.Mod(v, &_modulus)

	// set big int byte value
	z.setBigInt(vv)' '	v.Mod(v, &_modulus)
	vv.Set(v)

	// set big int byte value
	z.setBigInt(vv)'
diag "(xi) ff.Element.SetBigInt: v.Mod(v, &_modulus) mutates the argument"

fresh; mutate /tmp/effrepo/ffg/element.go 'func (z *Element) Mul(x, y *Element) *Element {
	mul(z, x, y)' 'var scratch Element

func (z *Element) Mul(x, y *Element) *Element {
	scratch = *x
	mul(z, &scratch, y)'
diag "(xii) ffg.Element.Mul: package-level scratch Element written"

fresh; mutate /tmp/effrepo/ff/element.go '	if _, ok := vv.SetString(s, 10); !ok {' '	defer bigIntPool.Put(vv)
	if _, ok := vv.SetString(s, 10); !ok {'
diag "(xiii) ff.Element.SetString: pooled object Put twice (defer + explicit Put)"

fresh; mutate /tmp/effrepo/ffg/element.go '	vv.SetBytes(e)

	// set big int
	z.SetBigInt(vv)

	// put temporary object back in pool
	bigIntPool.Put(vv)' '	vv.SetBytes(e)

	// put temporary object back in pool
	bigIntPool.Put(vv)

	// set big int
	z.SetBigInt(vv)'
diag "(xiv) ffg.Element.SetBytes: pooled object used after its Put"

rm -rf /tmp/effrepo $S

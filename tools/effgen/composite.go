package main

import (
	"go/ast"
)

// litElems evaluates the elements of a composite literal and returns, per
// field name ("*" for positional/indexed elements), the stored references.
func (ft *FT) litElems(cl *ast.CompositeLit, t Type) map[string]RootSet {
	out := map[string]RootSet{}
	u := t.under()
	_, isStruct := u.E.(*ast.StructType)
	for _, el := range cl.Elts {
		fld := "*"
		val := el
		if kv, ok := el.(*ast.KeyValueExpr); ok {
			val = kv.Value
			if id, ok := kv.Key.(*ast.Ident); ok && isStruct {
				fld = id.Name
			} else {
				ft.eval(kv.Key)
			}
		}
		var v Val
		if inner, ok := val.(*ast.CompositeLit); ok && inner.Type == nil {
			// elided element type: {..} inside [][]T{...}
			et := t.elem()
			v = Val{T: et, Pts: ft.mergeElems(inner, et)}
		} else {
			v = ft.eval(val)
		}
		if out[fld] == nil {
			out[fld] = RootSet{}
		}
		out[fld].addAll(v.Pts)
	}
	return out
}

func (ft *FT) mergeElems(cl *ast.CompositeLit, t Type) RootSet {
	all := RootSet{}
	for _, s := range ft.litElems(cl, t) {
		all.addAll(s)
	}
	return all
}

// evalComposite: T{...} as a value.  Slices and maps allocate a backing
// object; struct and array values carry the union of their element refs.
func (ft *FT) evalComposite(cl *ast.CompositeLit) Val {
	t := Type{E: cl.Type, Pkg: ft.pk.Dir}
	if cl.Type == nil {
		t = unknownT
	}
	elems := ft.litElems(cl, t)
	u := t.under()
	_, isMap := u.E.(*ast.MapType)
	if t.isSlice() || isMap || t.E == nil {
		r := ft.alloc(cl)
		for f, s := range elems {
			ft.addCont(r, f, s)
		}
		return Val{T: t, Pts: rs(r)}
	}
	all := RootSet{}
	for _, s := range elems {
		all.addAll(s)
	}
	return Val{T: t, Pts: all}
}

// evalAddrComposite: &T{...} allocates a fresh object, field-sensitively.
func (ft *FT) evalAddrComposite(n ast.Node, cl *ast.CompositeLit) Val {
	t := Type{E: cl.Type, Pkg: ft.pk.Dir}
	elems := ft.litElems(cl, t)
	r := ft.alloc(n)
	for f, s := range elems {
		ft.addCont(r, f, s)
	}
	return Val{T: t.ptrTo(), Pts: rs(r)}
}

import sys
q=21888242871839275222246405745257275088548364400416034343698204186575808495617
RPS=[56,57,56,60,60,63,64,63,60,66,60,65,70,60,64,68]
def gen(t,RF,RP,n=254,field=1,sbox=0):
    bits=[]
    def put(v,k):
        for i in range(k-1,-1,-1): bits.append((v>>i)&1)
    put(field,2);put(sbox,4);put(n,12);put(t,12);put(RF,10);put(RP,10);bits.extend([1]*30)
    b=bits
    def clock():
        nb=b[62]^b[51]^b[38]^b[23]^b[13]^b[0]
        b.pop(0);b.append(nb);return nb
    for _ in range(160): clock()
    def outbit():
        x=clock()
        while x==0:
            clock(); x=clock()
        return clock()
    def rnd(k):
        v=0
        for _ in range(k): v=(v<<1)|outbit()
        return v
    rc=[]
    for _ in range((RF+RP)*t):
        v=rnd(n)
        while v>=q: v=rnd(n)
        rc.append(v)
    xy=[rnd(n)%q for _ in range(2*t)]
    xs,ys=xy[:t],xy[t:]
    assert len(set(xy))==2*t
    mds=[[pow(xs[i]+ys[j],-1,q) for j in range(t)] for i in range(t)]
    return rc,mds
import re
def load(t):
    d={}
    for line in open('/verif/_build/tables/poseidon_t%d.txt'%t):
        name,rest=line.split(' ',1)
        d[name]=eval(rest.replace(' ',','))
    return d
for t in [2,3,17]:
    rc,mds=gen(t,8,RPS[t-2])
    d=load(t)
    print(t, hex(rc[0]), d['C'][:t]==rc[:t], all(d['M'][j][i]==mds[i][j] for i in range(t) for j in range(t)))

(* Driver: runs operation lines against the EXTRACTED Coq model.
   usage: driver <tables-dir> <casefile>
   Same line protocol and canonical output as harness/main.go. *)

module List = Stdlib.List
module String = Stdlib.String

let tables_dir = Sys.argv.(1)
let case_file = Sys.argv.(2)

type tok =
  | I of Z.t
  | B of Z.t list
  | L of Z.t list
  | Nil
  | T of bool
  | W of string
  | Src of Eddsa.scan_src

let rec nat_of_int n = if n <= 0 then Datatypes.O else Datatypes.S (nat_of_int (n - 1))
let rec int_of_nat = function Datatypes.O -> 0 | Datatypes.S n -> 1 + int_of_nat n

let bytes_of_hex (s : string) : Z.t list =
  let n = String.length s / 2 in
  List.init n (fun i -> Z.of_int (int_of_string ("0x" ^ String.sub s (2 * i) 2)))

let hex_of_bytes (b : Z.t list) : string =
  String.concat "" (List.map (fun z -> Printf.sprintf "%02x" (Z.to_int z land 255)) b)

let starts s p = String.length s >= String.length p && String.sub s 0 (String.length p) = p
let after s n = String.sub s n (String.length s - n)

let parse_tok (t : string) : tok =
  if t = "nil" then Nil
  else if t = "true" then T true
  else if t = "false" then T false
  else if starts t "sb:" then Src (Eddsa.SrcBytes (bytes_of_hex (after t 3)))
  else if starts t "ss:" then Src (Eddsa.SrcString (bytes_of_hex (after t 3)))
  else if starts t "si:" then Src (Eddsa.SrcInt (Z.of_string (after t 3)))
  else if t = "sn" then Src Eddsa.SrcNil
  else if starts t "so:" then Src Eddsa.SrcOther
  else if starts t "x" then B (bytes_of_hex (after t 1))
  else if starts t "[" then begin
    let inner = String.sub t 1 (String.length t - 2) in
    if inner = "" then L [] else L (List.map Z.of_string (String.split_on_char ',' inner))
  end
  else if t = "gQ" then I BabyJub.coq_Q
  else if t = "gZero" then I Z.zero
  else if t = "gOne" then I Z.one
  else if t = "gMinusOne" then I Z.minus_one
  else if t = "gA" then I BabyJub.coq_A
  else if t = "gD" then I BabyJub.coq_D
  else if t = "gOrder" then I BabyJub.coq_Order
  else if t = "gSubOrder" then I BabyJub.coq_SubOrder
  else if t = "gB8x" then I (fst BabyJub.coq_B8)
  else if t = "gB8y" then I (snd BabyJub.coq_B8)
  else match Z.of_string t with
    | v -> I v
    | exception _ -> W t

let zi = function I v -> v | _ -> failwith "int expected"
let zb = function B b -> b | Src (Eddsa.SrcBytes b) -> b | _ -> failwith "bytes expected"
let zl = function L l -> l | _ -> failwith "list expected"
let zt = function T b -> b | _ -> failwith "bool expected"
let zs = function Src s -> s | _ -> failwith "src expected"
let zw = function W s -> s | I v -> Z.to_string v | _ -> failwith "word expected"

let bI = Z.to_string
let xB b = "x" ^ hex_of_bytes b
let lI l = "[" ^ String.concat "," (List.map bI l) ^ "]"
let pt ((x, y) : Z.t * Z.t) = bI x ^ " " ^ bI y
let boolS b = if b then "true" else "false"

exception Out of string
let res_str f = function
  | Outcome.Ok v -> f v
  | Outcome.Err -> "ERR"
  | Outcome.Panic -> "PANIC"

(* ---------------------------------------------------------------- tables *)

let read_lines path =
  let ic = open_in path in
  let rec go acc = match input_line ic with
    | l -> go (l :: acc)
    | exception End_of_file -> close_in ic; List.rev acc in
  go []

(* one line: "name value" where value is an int or nested [..] space separated *)
type tree = Leaf of Z.t | Node of tree list
let parse_tree (s : string) : tree =
  let n = String.length s in
  let pos = ref 0 in
  let rec skip () = if !pos < n && s.[!pos] = ' ' then (incr pos; skip ()) in
  let rec item () =
    skip ();
    if s.[!pos] = '[' then begin
      incr pos;
      let items = ref [] in
      let rec loop () =
        skip ();
        if s.[!pos] = ']' then incr pos
        else (items := item () :: !items; loop ()) in
      loop ();
      Node (List.rev !items)
    end else begin
      let st = !pos in
      while !pos < n && s.[!pos] <> ' ' && s.[!pos] <> ']' do incr pos done;
      Leaf (Z.of_string (String.sub s st (!pos - st)))
    end in
  item ()

let load_table path : (string * tree) list =
  List.filter_map (fun l ->
      match String.index_opt l ' ' with
      | None -> None
      | Some i -> Some (String.sub l 0 i, parse_tree (after l (i + 1))))
    (read_lines path)

let leaf = function Leaf v -> v | _ -> failwith "leaf"
let flat = function Node l -> List.map leaf l | _ -> failwith "node"
let mat = function Node l -> List.map flat l | _ -> failwith "node"

let poseidon_meta = lazy (load_table (Filename.concat tables_dir "poseidon_meta.txt"))
let nroundsf = lazy (nat_of_int (Z.to_int (leaf (List.assoc "NROUNDSF" (Lazy.force poseidon_meta)))))
let poseidon_tables : Poseidon.ptable list Lazy.t = lazy (
  let nrp = flat (List.assoc "NROUNDSP" (Lazy.force poseidon_meta)) in
  List.mapi (fun i _ ->
      let tb = load_table (Filename.concat tables_dir (Printf.sprintf "poseidon_t%d.txt" (i + 2))) in
      let rp = nat_of_int (Z.to_int (leaf (List.assoc "RP" tb))) in
      ((((rp, flat (List.assoc "C" tb)), flat (List.assoc "S" tb)), mat (List.assoc "M" tb)),
       mat (List.assoc "P" tb))) nrp)

let q = BabyJub.coq_Q
let poseidon_ex inp cap nouts =
  Poseidon.coq_HashWithStateEx q (Lazy.force nroundsf) (Lazy.force poseidon_tables) inp cap nouts
let poseidon_hash inp = Poseidon.coq_Hash q (Lazy.force nroundsf) (Lazy.force poseidon_tables) inp

let gold_tb = lazy (load_table (Filename.concat tables_dir "gold_tables.txt"))
let gold_hash (w : Z.t list) =
  let tb = Lazy.force gold_tb in
  let n k = nat_of_int (Z.to_int (leaf (List.assoc k tb))) in
  let rec take k l = if k = 0 then [] else match l with [] -> [] | x :: r -> x :: take (k - 1) r in
  let rec drop k l = if k = 0 then l else match l with [] -> [] | _ :: r -> drop (k - 1) r in
  GoldPoseidon.coq_Hash (flat (List.assoc "c" tb)) (flat (List.assoc "s" tb)) (mat (List.assoc "p" tb))
    (flat (List.assoc "mcirc" tb)) (flat (List.assoc "mdiag" tb))
    (n "NROUNDSF") (n "NROUNDSP") (n "mLen") (take 8 w) (drop 8 w)

let blake512 : Z.t list -> Z.t list = Blake512.blake512
let mimc7h l = Mimc7.coq_Hash l None

(* ---------------------------------------------------------------- ff *)

let w64 = Z.shift_left Z.one 64
let m64 = Z.pred w64
let el_of_raw (v : Z.t) : FfLimbs.el =
  let l i = Z.logand (Z.shift_right v (64 * i)) m64 in
  (((l 0, l 1), l 2), l 3)
let raw_of_el ((((a, b), c), d) : FfLimbs.el) : string =
  bI (Z.add a (Z.add (Z.shift_left b 64) (Z.add (Z.shift_left c 128) (Z.shift_left d 192))))

let opt_str f = function Some v -> f v | None -> "OUTOFFUEL"

let ff_op (op : string) (a : tok list) : string =
  let el i = el_of_raw (zi (List.nth a i)) in
  match op with
  | "add" -> raw_of_el (FfLimbs.addGeneric (el 1) (if (let k = Z.to_int (zi (List.nth a 0)) in k = 3 || k = 4) then el 1 else el 2))
  | "sub" -> raw_of_el (FfLimbs.subGeneric (el 1) (if (let k = Z.to_int (zi (List.nth a 0)) in k = 3 || k = 4) then el 1 else el 2))
  | "mul" -> raw_of_el (FfLimbs.mulGeneric (el 1) (if (let k = Z.to_int (zi (List.nth a 0)) in k = 3 || k = 4) then el 1 else el 2))
  | "div" -> opt_str raw_of_el (FfLimbs.div (el 1) (if (let k = Z.to_int (zi (List.nth a 0)) in k = 3 || k = 4) then el 1 else el 2))
  | "neg" -> raw_of_el (FfLimbs.negGeneric (el 1))
  | "double" -> raw_of_el (FfLimbs.doubleGeneric (el 1))
  | "square" -> raw_of_el (FfLimbs.square (el 1))
  | "inverse" -> opt_str raw_of_el (FfLimbs.inverse (el 1))
  | "halve" -> raw_of_el (FfLimbs.halve (el 0))
  | "mulby3" -> raw_of_el (FfLimbs.mulBy3 (el 0))
  | "mulby5" -> raw_of_el (FfLimbs.mulBy5 (el 0))
  | "mulby13" -> raw_of_el (FfLimbs.mulBy13 (el 0))
  | "frommont" -> raw_of_el (FfLimbs.fromMontGeneric (el 0))
  | "tomont" -> raw_of_el (FfLimbs.toMont (el 0))
  | "butterfly" -> let (x, y) = FfLimbs.butterflyGeneric (el 0) (el 1) in raw_of_el x ^ " " ^ raw_of_el y
  | "exp" -> raw_of_el (FfLimbs.exp (el 0) (zi (List.nth a 1)))
  | "batchinv" ->
    opt_str (fun l -> "[" ^ String.concat "," (List.map raw_of_el l) ^ "]")
      (FfLimbs.batchInvert (List.map el_of_raw (zl (List.nth a 0))))
  | "setuint64" -> raw_of_el (FfLimbs.setUint64 (zi (List.nth a 0)))
  | "setbigint" -> raw_of_el (FfConv.setBigInt (zi (List.nth a 1)))
  | "setbytes" -> raw_of_el (FfConv.setBytes (zb (List.nth a 0)))
  | "setstring" -> res_str raw_of_el (FfConv.setString (zb (List.nth a 0)))
  | "setinterface" ->
    (match zw (List.nth a 0) with
     | "1" | "2" -> raw_of_el (el 1)
     | "3" -> raw_of_el (FfLimbs.setUint64 (zi (List.nth a 1)))
     | "4" -> res_str raw_of_el (FfConv.setString (Decimal.dec_of_Z (zi (List.nth a 1))))
     | "5" -> res_str raw_of_el (FfConv.setString (zb (List.nth a 1)))
     | "6" | "7" -> raw_of_el (FfConv.setBigInt (zi (List.nth a 1)))
     | "8" -> raw_of_el (FfConv.setBytes (zb (List.nth a 1)))
     | _ -> "ERR")
  | "tobig" -> bI (FfConv.toBigIntRegular (el 0))
  | "bytes" -> xB (FfConv.bytesOf (el 0))
  | "string" -> xB (FfConv.stringOf (el 0))
  | "equal" -> boolS (FfLimbs.equal (el 0) (el 1))
  | "cmp" -> bI (FfConv.cmp (el 0) (el 1))
  | "lexlargest" -> boolS (FfConv.lexLargest (el 0))
  | "iszero" -> boolS (FfLimbs.isZero (el 0))
  | "bit" -> bI (FfConv.bit (el 0) (zi (List.nth a 1)))
  | "bitlen" -> bI (FfConv.bitLen (el 0))
  | "modulus" -> bI FfConv.modulus
  | "one" -> raw_of_el FfLimbs.one
  | "legendre" -> bI (FfConv.legendre (el 0))
  | "sqrtalias" ->
    (match FfConv.sqrt (el 0) with
     | FfConv.SqSome z -> raw_of_el z ^ " " ^ raw_of_el z
     | FfConv.SqNil -> "nil " ^ raw_of_el (el 0)
     | FfConv.SqOutOfFuel -> "OUTOFFUEL")
  | "sqrt" ->
    (match FfConv.sqrt (el 1) with
     | FfConv.SqSome z -> raw_of_el z ^ " " ^ raw_of_el z
     | FfConv.SqNil -> "nil " ^ raw_of_el (el 0)
     | FfConv.SqOutOfFuel -> "OUTOFFUEL")
  | _ -> "UNKNOWN-OP"

let ffg_op (op : string) (a : tok list) : string =
  let el i = zi (List.nth a i) in
  let second () = if (let k = Z.to_int (el 0) in k = 3 || k = 4) then el 1 else el 2 in
  match op with
  | "add" -> bI (FfgLimbs.addGeneric (el 1) (second ()))
  | "sub" -> bI (FfgLimbs.subGeneric (el 1) (second ()))
  | "mul" -> bI (FfgLimbs.mulGeneric (el 1) (second ()))
  | "div" -> bI (FfgLimbs.div (el 1) (second ()))
  | "neg" -> bI (FfgLimbs.negGeneric (el 1))
  | "double" -> bI (FfgLimbs.doubleGeneric (el 1))
  | "square" -> bI (FfgLimbs.square (el 1))
  | "inverse" -> bI (FfgLimbs.inverse (el 1))
  | "halve" -> bI (FfgLimbs.halve (el 0))
  | "mulby3" -> bI (FfgLimbs.mulBy3 (el 0))
  | "mulby5" -> bI (FfgLimbs.mulBy5 (el 0))
  | "mulby13" -> bI (FfgLimbs.mulBy13 (el 0))
  | "frommont" -> bI (FfgLimbs.fromMontGeneric (el 0))
  | "tomont" -> bI (FfgLimbs.toMont (el 0))
  | "butterfly" -> let (x, y) = FfgLimbs.butterflyGeneric (el 0) (el 1) in bI x ^ " " ^ bI y
  | "exp" -> bI (FfgLimbs.exp (el 0) (el 1))
  | "batchinv" -> lI (FfgLimbs.batchInvert (zl (List.nth a 0)))
  | "setuint64" -> bI (FfgLimbs.setUint64 (el 0))
  | "touint64" -> bI (FfgLimbs.toUint64Regular (el 0))
  | "setbigint" -> bI (FfgLimbs.setBigInt (el 1))
  | "setbytes" -> bI (FfgConv.setBytes (zb (List.nth a 0)))
  | "setstring" -> res_str bI (FfgConv.setString (zb (List.nth a 0)))
  | "tobig" -> bI (FfgLimbs.toBigIntRegular (el 0))
  | "bytes" -> xB (FfgConv.bytesOf (el 0))
  | "string" -> xB (FfgConv.stringOf (el 0))
  | "equal" -> boolS (FfgConv.equal (el 0) (el 1))
  | "cmp" -> bI (FfgConv.cmp (el 0) (el 1))
  | "lexlargest" -> boolS (FfgConv.lexLargest (el 0))
  | "iszero" -> boolS (FfgConv.isZero (el 0))
  | "bit" -> bI (FfgConv.bit (el 0) (el 1))
  | "bitlen" -> bI (FfgConv.bitLen (el 0))
  | "modulus" -> bI FfgLimbs.modulus
  | "one" -> bI FfgLimbs.one
  | "setinterface" ->
    (match zw (List.nth a 0) with
     | "1" | "2" -> bI (el 1)
     | "3" -> bI (FfgLimbs.setUint64 (el 1))
     | "4" -> res_str bI (FfgConv.setString (Decimal.dec_of_Z (el 1)))
     | "5" -> res_str bI (FfgConv.setString (zb (List.nth a 1)))
     | "6" | "7" -> bI (FfgLimbs.setBigInt (el 1))
     | "8" -> bI (FfgConv.setBytes (zb (List.nth a 1)))
     | _ -> "ERR")
  | "legendre" -> bI (FfgConv.legendre (el 0))
  | "sqrtalias" ->
    (match FfgConv.sqrt (el 0) with
     | FfgConv.SqSome z -> bI z ^ " " ^ bI z
     | FfgConv.SqNil -> "nil " ^ bI (el 0)
     | FfgConv.SqOutOfFuel -> "OUTOFFUEL")
  | "butterflyalias" -> bI (FfgLimbs.subGeneric (el 0) (FfgLimbs.addGeneric (el 0) (el 0)))
  | "sqrt" ->
    (match FfgConv.sqrt (el 1) with
     | FfgConv.SqSome z -> bI z ^ " " ^ bI z
     | FfgConv.SqNil -> "nil " ^ bI (el 0)
     | FfgConv.SqOutOfFuel -> "OUTOFFUEL")
  | _ -> "UNKNOWN-OP"

(* ---------------------------------------------------------------- dispatch *)

let sigs ((r8, s) : Eddsa.signature) = pt r8 ^ " " ^ bI s

let dispatch (op : string) (a : tok list) : string =
  let i k = zi (List.nth a k) and b k = zb (List.nth a k) and l k = zl (List.nth a k) in
  let p k = (i k, i (k + 1)) in
  match op with
  | "swap" -> xB (Utils.coq_SwapEndianness (b 0))
  | "lebytes" -> xB (Utils.coq_BigIntLEBytes (i 0))
  | "fromle" -> bI (Utils.coq_SetBigIntFromLEBytes (b 0))
  | "fromledirty" -> bI (Utils.coq_SetBigIntFromLEBytes (b 0))
  | "hexstr" -> xB (Utils.coq_HexString (b 0))
  | "hexenc" -> xB (Utils.coq_HexEncode (b 0))
  | "hexdec" -> res_str xB (Utils.coq_HexDecode (b 0))
  | "hexdecinto" -> res_str xB (Utils.coq_HexDecodeInto (nat_of_int (Z.to_int (i 0))) (b 1))
  | "infield" -> boolS (Utils.coq_CheckBigIntInField q (i 0))
  | "newint" -> (match Decimal.parse_dec (b 0) with Some v -> bI v | None -> "ERR")
  | "padd" -> pt (BabyJub.coq_Affine (BabyJub.coq_Add (BabyJub.coq_Projective (p 0)) (BabyJub.coq_Projective (p 2))))
  | "paffine" -> pt (BabyJub.coq_Affine ((i 0, i 1), i 2))
  | "paddproj" -> pt (BabyJub.coq_Affine (BabyJub.coq_Add ((i 0, i 1), i 2) ((i 3, i 4), i 5)))
  | "paddalias" ->
    let p1 = BabyJub.coq_Projective (p 1) and p2 = BabyJub.coq_Projective (p 3) in
    pt (BabyJub.coq_Affine (if Z.to_int (i 0) <= 2 then BabyJub.coq_Add p1 p2 else BabyJub.coq_Add p1 p1))
  | "mulzero" -> pt (BabyJub.coq_Mul (i 0) (p 1))
  | "mulshared" -> let r = BabyJub.coq_Mul (i 0) (p 1) in pt r ^ " " ^ pt r
  | "signverify" ->
    let dgp = (zw (List.nth a 0) = "p") in
    let sg = if dgp then Eddsa.coq_SignPoseidon blake512 poseidon_hash (b 1) (i 2) else Eddsa.coq_SignMimc7 blake512 mimc7h (b 1) (i 2) in
    (match sg with
     | Outcome.Ok sg ->
       (match Eddsa.coq_SigDecompress (Eddsa.coq_SigCompress sg) with
        | Outcome.Ok sg2 ->
          (match Eddsa.coq_PkDecompress (Eddsa.coq_PkCompress (Eddsa.coq_Public blake512 (b 1))) with
           | Outcome.Ok pk2 ->
             (match (if dgp then Eddsa.coq_VerifyPoseidon poseidon_hash pk2 (i 2) sg2 else Eddsa.coq_VerifyMimc7 mimc7h pk2 (i 2) sg2) with
              | Outcome.Ok () -> "ok" | _ -> "REJECTED")
           | _ -> "ERR-DECODE-PK")
        | _ -> "ERR-DECODE-SIG")
     | Outcome.Err -> "ERR" | Outcome.Panic -> "PANIC")
  | "infieldarr" -> boolS (Utils.coq_CheckBigIntArrayInField q (l 0))
  | "mul" -> pt (BabyJub.coq_Mul (i 0) (p 1))
  | "mulrecv" | "mulalias" | "mulzerorecv" -> let r = BabyJub.coq_Mul (i 0) (p 1) in pt r ^ " " ^ pt r
  | "pset" | "psetalias" | "psetshared" -> pt (p 0) ^ " " ^ pt (p 0)
  | "mulB8" -> pt (BabyJub.coq_Mul (i 0) BabyJub.coq_B8)
  | "incurveB8" -> boolS (BabyJub.coq_InCurve BabyJub.coq_B8) ^ " " ^ boolS (BabyJub.coq_InSubGroup BabyJub.coq_B8)
  | "compressB8" -> xB (BabyJub.coq_Compress BabyJub.coq_B8)
  | "incurve" -> boolS (BabyJub.coq_InCurve (p 0))
  | "insub" -> boolS (BabyJub.coq_InSubGroup (p 0))
  | "csign" -> boolS (BabyJub.coq_PointCoordSign (i 0))
  | "packsigny" -> xB (BabyJub.coq_PackSignY (zt (List.nth a 0)) (i 1))
  | "unpacksigny" -> let (s, y) = BabyJub.coq_UnpackSignY (b 0) in boolS s ^ " " ^ bI y
  | "compress" -> xB (BabyJub.coq_Compress (p 0))
  | "decompress" -> res_str pt (BabyJub.coq_Decompress (b 0))
  | "decompressrecv" ->
    (match BabyJub.coq_Decompress (b 0) with
     | Outcome.Ok r -> pt r ^ " " ^ pt r
     | _ -> "ERR 7 9")
  | "decompresszero" ->
    (match BabyJub.coq_Decompress (b 0) with
     | Outcome.Ok r -> pt r ^ " " ^ pt r
     | _ -> "ERR untouched")
  | "fromsigny" -> res_str pt (BabyJub.coq_PointFromSignAndY (zt (List.nth a 0)) (i 1))
  | "sk2int" -> bI (Eddsa.coq_SkToBigInt blake512 (b 0))
  | "public" -> pt (Eddsa.coq_Public blake512 (b 0))
  | "scalarpublic" -> pt (Eddsa.coq_ScalarPublic (i 0))
  | "scalarseq" ->
    let s = Eddsa.coq_SkToBigInt blake512 (b 0) in
    let pk = Eddsa.coq_ScalarPublic s in
    bI s ^ " " ^ pt pk ^ " " ^ bI s ^ " " ^ pt pk ^ " " ^ bI s
  | "pubroutes" ->
    let s = Eddsa.coq_SkToBigInt blake512 (b 0) in
    let pk = Eddsa.coq_Public blake512 (b 0) in
    pt pk ^ " " ^ pt (Eddsa.coq_ScalarPublic s) ^ " " ^ bI s ^ " " ^ bI s
  | "signp" -> res_str sigs (Eddsa.coq_SignPoseidon blake512 poseidon_hash (b 0) (i 1))
  | "signm" -> res_str sigs (Eddsa.coq_SignMimc7 blake512 mimc7h (b 0) (i 1))
  | "verifyp" -> res_str (fun () -> "ok") (Eddsa.coq_VerifyPoseidon poseidon_hash (p 0) (i 2) (p 3, i 5))
  | "verifym" -> res_str (fun () -> "ok") (Eddsa.coq_VerifyMimc7 mimc7h (p 0) (i 2) (p 3, i 5))
  | "sigcomp" -> xB (Eddsa.coq_SigCompress (p 0, i 2))
  | "sigdecomp" -> res_str (fun s -> sigs s ^ " " ^ sigs s) (Eddsa.coq_SigDecompress (b 0))
  | "sigdecompc" -> res_str sigs (Eddsa.coq_SigDecompress (b 0))
  | "pkcomp" -> xB (Eddsa.coq_PkCompress (p 0))
  | "pkdecomp" -> res_str pt (Eddsa.coq_PkDecompress (b 0))
  | "pkmarshal" -> xB (Eddsa.coq_PkMarshalText (p 0))
  | "pkunmarshal" -> res_str pt (Eddsa.coq_PkUnmarshalText (b 0))
  | "pkcmarshal" -> xB (Eddsa.coq_PkCompMarshalText (b 0))
  | "pkcunmarshal" -> res_str xB (Eddsa.coq_PkCompUnmarshalText (b 0))
  | "sigcmarshal" -> xB (Eddsa.coq_SigCompMarshalText (b 0))
  | "sigcunmarshal" -> res_str xB (Eddsa.coq_SigCompUnmarshalText (b 0))
  | "decompresssig" -> res_str sigs (Eddsa.coq_DecompressSig (b 0))
  | "sigscan" -> res_str sigs (Eddsa.coq_SigScan (zs (List.nth a 0)))
  | "sigcscan" -> res_str xB (Eddsa.coq_SigCompScan (zs (List.nth a 0)))
  | "pkscan" -> res_str pt (Eddsa.coq_PkScan (zs (List.nth a 0)))
  | "pkcscan" -> res_str xB (Eddsa.coq_PkCompScan (zs (List.nth a 0)))
  | "sigvalue" -> xB (Eddsa.coq_SigValue (p 0, i 2))
  | "pkvalue" -> xB (Eddsa.coq_PkValue (p 0))
  | "sigcvalue" | "pkcvalue" -> xB (b 0)
  | "poseidon" -> res_str lI (poseidon_ex (l 2) (i 0) (i 1))
  | "poseidonh" -> res_str bI (poseidon_hash (l 0))
  | "poseidonhs" ->
    res_str bI (Poseidon.coq_HashWithState q (Lazy.force nroundsf) (Lazy.force poseidon_tables) (l 1) (i 0))
  | "poseidonex" ->
    res_str lI (Poseidon.coq_HashEx q (Lazy.force nroundsf) (Lazy.force poseidon_tables) (l 1) (i 0))
  | "gold" -> lI (gold_hash (l 0))
  | "mimc7" -> bI (Mimc7.coq_MIMC7Hash (i 0) (i 1))
  | "mimc7g" -> res_str bI (Mimc7.coq_MIMC7HashGeneric (i 0) (i 1) (i 2))
  | "mimchash" ->
    let key = match List.nth a 0 with I v -> Some v | _ -> None in
    res_str bI (Mimc7.coq_Hash (l 1) key)
  | "mimchashg" -> res_str bI (Mimc7.coq_HashGeneric (i 0) (l 1) (i 2))
  | "mimcbytes" -> res_str bI (Mimc7.coq_HashBytes (b 0))
  | "keccak" ->
    let data = List.map (function B x -> x | _ -> []) a in
    xB (KeccakStream.coq_Hash data)
  | "keccakarena" ->
    let arena = b 0 in
    let rec sub l o n = if o > 0 then sub (List.tl l) (o - 1) n else if n = 0 then [] else List.hd l :: sub (List.tl l) 0 (n - 1) in
    let rec pairs = function o :: n :: r -> sub arena (Z.to_int o) (Z.to_int n) :: pairs r | _ -> [] in
    xB (KeccakStream.coq_Hash (pairs (l 1))) ^ " " ^ xB arena
  | "blakearena" ->
    let arena = b 0 in
    let rec sub l o n = if o > 0 then sub (List.tl l) (o - 1) n else if n = 0 then [] else List.hd l :: sub (List.tl l) 0 (n - 1) in
    xB (blake512 (sub arena (Z.to_int (i 1)) (Z.to_int (i 2)))) ^ " " ^ xB arena
  | "blake" -> xB (blake512 (b 0))
  | "ff" -> ff_op (zw (List.nth a 1)) (List.tl (List.tl a))
  | "ffg" -> ffg_op (zw (List.nth a 0)) (List.tl a)
  | "elarr" -> lI (FfConv.coq_ElementArrayToBigIntArray (FfConv.coq_BigIntArrayToElementArray (l 0)))
  | _ -> "UNKNOWN-OP"

let () =
  List.iter (fun line ->
      let line = String.trim line in
      if line <> "" then begin
        let fs = List.filter (fun s -> s <> "") (String.split_on_char ' ' line) in
        let out =
          try dispatch (List.hd fs) (List.map parse_tok (List.tl fs))
          with Failure m -> "DRIVER-ERROR:" ^ m | Not_found -> "DRIVER-ERROR:notfound"
             | Invalid_argument m -> "DRIVER-ERROR:" ^ m in
        print_endline out
      end)
    (read_lines case_file)

// Harness: runs operation lines against the real implementation in /repo.
//
//	harness [-purity] [-conc N] [-rounds R] <casefile>
//
// One case per line: "<op> <arg> ...".  Argument tokens: decimal integer,
// x<hex> bytes, [a,b,c] integer list, nil, true/false, scan sources
// sb:<hex> ss:<hex> si:<int> sn so:<kind>.  One output line per case.
// Canonical outputs: integers in decimal, bytes as x<hex>, ERR for a returned
// error, PANIC for a recovered panic.
//
// -purity: snapshot every argument and every exported package-level constant
// before each call and compare afterwards (suffix " MUTATED:<what>"), then
// re-run the whole history and report lines whose result changed (suffix
// " REPEAT-DIFF").
// -conc N: after the sequential pass, N goroutines re-run all lines
// concurrently on the shared parsed arguments; any differing result prints a
// CONC-DIFF line.  Build with -race to get the race detector's verdict.
package main

import (
	"bufio"
	"crypto/sha256"
	"encoding/hex"
	"flag"
	"fmt"
	"math/big"
	"os"
	"strings"
	"sync"
	"time"

	"github.com/iden3/go-iden3-crypto/v2/babyjub"
	"github.com/iden3/go-iden3-crypto/v2/constants"
	"github.com/iden3/go-iden3-crypto/v2/ff"
	"github.com/iden3/go-iden3-crypto/v2/ffg"
	gold "github.com/iden3/go-iden3-crypto/v2/goldenposeidon"
	"github.com/iden3/go-iden3-crypto/v2/keccak256"
	"github.com/iden3/go-iden3-crypto/v2/mimc7"
	"github.com/iden3/go-iden3-crypto/v2/poseidon"
	"github.com/iden3/go-iden3-crypto/v2/utils"
)

type val struct {
	kind byte // 'i' int, 'b' bytes, 'l' list, 'n' nil, 't' bool, 's' scan source
	i    *big.Int
	b    []byte
	l    []*big.Int
	t    bool
	src  interface{}
	tok  string
}

func parseTok(tok string) val {
	switch {
	case tok == "nil":
		return val{kind: 'n', tok: tok}
	case tok == "true" || tok == "false":
		return val{kind: 't', t: tok == "true", tok: tok}
	case strings.HasPrefix(tok, "x"):
		b, err := hex.DecodeString(tok[1:])
		if err != nil {
			panic("bad hex " + tok)
		}
		return val{kind: 'b', b: b, tok: tok}
	case strings.HasPrefix(tok, "["):
		in := strings.Trim(tok, "[]")
		l := []*big.Int{}
		if in != "" {
			for _, s := range strings.Split(in, ",") {
				v, ok := new(big.Int).SetString(s, 10)
				if !ok {
					panic("bad int " + s)
				}
				l = append(l, v)
			}
		}
		return val{kind: 'l', l: l, tok: tok}
	case strings.HasPrefix(tok, "sb:"):
		b, _ := hex.DecodeString(tok[3:])
		return val{kind: 's', src: b, b: b, tok: tok}
	case strings.HasPrefix(tok, "ss:"):
		b, _ := hex.DecodeString(tok[3:])
		return val{kind: 's', src: string(b), tok: tok}
	case strings.HasPrefix(tok, "si:"):
		v, _ := new(big.Int).SetString(tok[3:], 10)
		return val{kind: 's', src: v.Int64(), tok: tok}
	case tok == "sn":
		return val{kind: 's', src: nil, tok: tok}
	case strings.HasPrefix(tok, "so:"):
		var src interface{}
		switch tok[3:] {
		case "float":
			src = 1.5
		case "bool":
			src = true
		case "time":
			src = time.Unix(0, 0)
		case "arr64":
			src = [64]byte{}
		case "arr32":
			src = [32]byte{}
		case "ptr":
			b := make([]byte, 64)
			src = &b
		case "uint":
			src = uint64(7)
		default:
			src = struct{}{}
		}
		return val{kind: 's', src: src, tok: tok}
	case strings.HasPrefix(tok, "g") && globalObj(tok) != nil:
		// the package-level object ITSELF is passed (not a copy)
		return val{kind: 'i', i: globalObj(tok), tok: tok}
	default:
		v, ok := new(big.Int).SetString(tok, 10)
		if !ok {
			return val{kind: 'w', tok: tok}
		}
		return val{kind: 'i', i: v, tok: tok}
	}
}

func globalObj(tok string) *big.Int {
	switch tok {
	case "gQ":
		return constants.Q
	case "gZero":
		return constants.Zero
	case "gOne":
		return constants.One
	case "gMinusOne":
		return constants.MinusOne
	case "gA":
		return babyjub.A
	case "gD":
		return babyjub.D
	case "gOrder":
		return babyjub.Order
	case "gSubOrder":
		return babyjub.SubOrder
	case "gB8x":
		return babyjub.B8.X
	case "gB8y":
		return babyjub.B8.Y
	}
	return nil
}

func (v val) snap() string {
	switch v.kind {
	case 'i':
		return v.i.Text(10) + fmt.Sprintf("/%d", len(v.i.Bits()))
	case 'b':
		return hex.EncodeToString(v.b)
	case 'l':
		var sb strings.Builder
		for _, x := range v.l {
			sb.WriteString(x.Text(10))
			sb.WriteByte(',')
		}
		return sb.String()
	case 's':
		if b, ok := v.src.([]byte); ok {
			return hex.EncodeToString(b)
		}
		return fmt.Sprint(v.src)
	}
	return v.tok
}

// ---------------------------------------------------------------- globals

func elS(e *ff.Element) string   { return fmt.Sprint(e[0], e[1], e[2], e[3]) }
func gelS(e *ffg.Element) string { return fmt.Sprint(e[0]) }

func globalsDigest() string {
	h := sha256.New()
	w := func(s string) { h.Write([]byte(s)); h.Write([]byte{0}) } //nolint
	w(constants.Q.String())
	w(constants.Zero.String())
	w(constants.One.String())
	w(constants.MinusOne.String())
	w(babyjub.A.String())
	w(babyjub.D.String())
	w(elS(babyjub.Aff))
	w(elS(babyjub.Dff))
	w(babyjub.Order.String())
	w(babyjub.SubOrder.String())
	w(babyjub.B8.X.String())
	w(babyjub.B8.Y.String())
	w(poseidon.VerifStateDigest())
	w(fmt.Sprint(poseidon.NROUNDSP))
	w(mimc7.VerifStateDigest())
	w(ff.VerifModulusRaw().String())
	w(ffg.VerifModulusRaw().String())
	q1, r1 := ff.VerifQElement()
	w(elS(&q1))
	w(elS(&r1))
	q2, r2 := ffg.VerifQElement()
	w(gelS(&q2))
	w(gelS(&r2))
	for _, e := range gold.C {
		w(gelS(e))
	}
	for _, e := range gold.S {
		w(gelS(e))
	}
	for _, r := range gold.M {
		for _, e := range r {
			w(gelS(e))
		}
	}
	for _, r := range gold.P {
		for _, e := range r {
			w(gelS(e))
		}
	}
	return hex.EncodeToString(h.Sum(nil))
}

// ---------------------------------------------------------------- output helpers

// retained results: in -purity mode the objects returned by a call are kept and
// re-serialised after the whole history (a later call must not change an earlier result)
var retainMu sync.Mutex

// a retained result: how to re-serialise it and how to scribble over it as a
// caller owning the result may do (undo = true reverts the scribble)
type kept struct {
	ser func() string
	scr func(undo bool)
}

var retainCur []kept

func keep(f func() string, scr func(undo bool)) string {
	retainMu.Lock()
	retainCur = append(retainCur, kept{f, scr})
	retainMu.Unlock()
	return f()
}

var scribbleK = new(big.Int).SetUint64(0x5ca1ab1e5ca1ab1e)

func scrI(v *big.Int, undo bool) {
	if v == nil {
		return
	}
	if undo {
		v.Sub(v, scribbleK)
	} else {
		v.Add(v, scribbleK)
	}
}
func kB(b []byte) string {
	return keep(func() string { return xB(b) }, func(bool) {
		for i := range b {
			b[i] ^= 0xA5
		}
	})
}
func kI(v *big.Int) string {
	return keep(func() string { return bI(v) }, func(undo bool) { scrI(v, undo) })
}
func kL(l []*big.Int) string {
	return keep(func() string { return lI(l) }, func(undo bool) {
		for _, v := range l {
			scrI(v, undo)
		}
	})
}
func kP(p *babyjub.Point) string {
	return keep(func() string { return pt(p) }, func(undo bool) {
		if p != nil {
			scrI(p.X, undo)
			if p.Y != p.X {
				scrI(p.Y, undo)
			}
		}
	})
}

func bI(v *big.Int) string {
	if v == nil {
		return "NIL"
	}
	return v.String()
}
func xB(b []byte) string { return "x" + hex.EncodeToString(b) }
func lI(l []*big.Int) string {
	ss := make([]string, len(l))
	for i, v := range l {
		ss[i] = bI(v)
	}
	return "[" + strings.Join(ss, ",") + "]"
}
func pt(p *babyjub.Point) string {
	if p == nil {
		return "NILPOINT"
	}
	return bI(p.X) + " " + bI(p.Y)
}
func boolS(b bool) string {
	if b {
		return "true"
	}
	return "false"
}
func mkPoint(x, y *big.Int) *babyjub.Point {
	return &babyjub.Point{X: new(big.Int).Set(x), Y: new(big.Int).Set(y)}
}
func arr32(b []byte) (r [32]byte) { copy(r[:], b); return }
func arr64(b []byte) (r [64]byte) { copy(r[:], b); return }

// raw Montgomery limbs <-> integer
func ffFromRaw(v *big.Int) ff.Element {
	var e ff.Element
	m := new(big.Int).Set(v)
	mask := new(big.Int).SetUint64(^uint64(0))
	for i := 0; i < 4; i++ {
		e[i] = new(big.Int).And(m, mask).Uint64()
		m.Rsh(m, 64)
	}
	return e
}
func ffRaw(e *ff.Element) string {
	v := new(big.Int)
	for i := 3; i >= 0; i-- {
		v.Lsh(v, 64)
		v.Or(v, new(big.Int).SetUint64(e[i]))
	}
	return v.String()
}
func ffgFromRaw(v *big.Int) ffg.Element { return ffg.Element{v.Uint64()} }
func ffgRaw(e *ffg.Element) string      { return fmt.Sprint(e[0]) }

// ---------------------------------------------------------------- dispatch

func run(op string, a []val) (out string) {
	defer func() {
		if r := recover(); r != nil {
			out = "PANIC"
		}
	}()
	return dispatch(op, a)
}

func dispatch(op string, a []val) string {
	switch op {
	// ---- utils
	case "swap":
		return xB(utils.SwapEndianness(a[0].b))
	case "lebytes":
		r := utils.BigIntLEBytes(a[0].i)
		return xB(r[:])
	case "fromle":
		return bI(utils.SetBigIntFromLEBytes(new(big.Int), a[0].b))
	case "fromledirty": // the destination already holds a (large, non-zero) value
		d := new(big.Int).Lsh(big.NewInt(0x1234567), 250)
		r := utils.SetBigIntFromLEBytes(d, a[0].b)
		if r != d {
			return "NOT-THE-DESTINATION"
		}
		return bI(d)
	case "hexstr":
		t, _ := utils.Hex(a[0].b).MarshalText()
		if string(t) != utils.Hex(a[0].b).String() {
			return "MISMATCH"
		}
		return xB(t)
	case "hexenc":
		return xB([]byte(utils.HexEncode(a[0].b)))
	case "hexdec":
		r, err := utils.HexDecode(string(a[0].b))
		if err != nil {
			return "ERR"
		}
		return xB(r)
	case "hexdecinto":
		dst := make([]byte, int(a[0].i.Int64()))
		if err := utils.HexDecodeInto(dst, a[1].b); err != nil {
			return "ERR"
		}
		return xB(dst)
	case "infield":
		return boolS(utils.CheckBigIntInField(a[0].i))
	case "newint":
		v, err := utils.NewIntFromString(string(a[0].b))
		if err != nil {
			return "ERR"
		}
		return bI(v)
	// ---- babyjub
	case "padd":
		p1, p2 := mkPoint(a[0].i, a[1].i), mkPoint(a[2].i, a[3].i)
		return kP(babyjub.NewPointProjective().Add(p1.Projective(), p2.Projective()).Affine())
	case "paffine": // X Y Z: an arbitrary projective triple through the exported struct fields
		pp := &babyjub.PointProjective{X: ff.NewElement().SetBigInt(a[0].i), Y: ff.NewElement().SetBigInt(a[1].i), Z: ff.NewElement().SetBigInt(a[2].i)}
		return kP(pp.Affine())
	case "paddproj": // X1 Y1 Z1 X2 Y2 Z2
		p1 := &babyjub.PointProjective{X: ff.NewElement().SetBigInt(a[0].i), Y: ff.NewElement().SetBigInt(a[1].i), Z: ff.NewElement().SetBigInt(a[2].i)}
		p2 := &babyjub.PointProjective{X: ff.NewElement().SetBigInt(a[3].i), Y: ff.NewElement().SetBigInt(a[4].i), Z: ff.NewElement().SetBigInt(a[5].i)}
		return kP(babyjub.NewPointProjective().Add(p1, p2).Affine())
	case "paddalias": // k x1 y1 x2 y2: receiver / operand aliasing of PointProjective.Add
		p1, p2 := mkPoint(a[1].i, a[2].i).Projective(), mkPoint(a[3].i, a[4].i).Projective()
		k1, k2 := *p1.X, *p2.X
		var r *babyjub.PointProjective
		switch a[0].i.Int64() {
		case 1: // p == q
			r = p1.Add(p1, p2)
			if *p2.X != k2 {
				return "OPERAND-CHANGED"
			}
		case 2: // p == o
			r = p2.Add(p1, p2)
			if *p1.X != k1 {
				return "OPERAND-CHANGED"
			}
		case 3: // q == o (one object), fresh receiver
			r = babyjub.NewPointProjective().Add(p1, p1)
			if *p1.X != k1 {
				return "OPERAND-CHANGED"
			}
		default: // p == q == o
			r = p1.Add(p1, p1)
		}
		return kP(r.Affine())
	case "mulzero": // zero-value receiver
		return kP(new(babyjub.Point).Mul(a[0].i, mkPoint(a[1].i, a[2].i)))
	case "mulshared": // the receiver shares its big.Ints with the argument point
		q := mkPoint(a[1].i, a[2].i)
		p := &babyjub.Point{X: q.X, Y: q.Y}
		r := p.Mul(a[0].i, q)
		if q.X.Cmp(a[1].i) != 0 || q.Y.Cmp(a[2].i) != 0 {
			return "OPERAND-CHANGED"
		}
		return pt(p) + " " + pt(r)
	case "signverify": // one chain on the implementation's own objects: sign, encode, decode, verify
		k := babyjub.PrivateKey(arr32(a[1].b))
		var sig *babyjub.Signature
		var err error
		if a[0].tok == "p" {
			sig, err = k.SignPoseidon(a[2].i)
		} else {
			sig, err = k.SignMimc7(a[2].i)
		}
		if err != nil {
			return "ERR"
		}
		sc := sig.Compress()
		sig2, err := sc.Decompress()
		if err != nil {
			return "ERR-DECODE-SIG"
		}
		pkc := k.Public().Compress()
		pk2, err := pkc.Decompress()
		if err != nil {
			return "ERR-DECODE-PK"
		}
		if a[0].tok == "p" {
			err = pk2.VerifyPoseidon(a[2].i, sig2)
		} else {
			err = pk2.VerifyMimc7(a[2].i, sig2)
		}
		if err != nil {
			return "REJECTED"
		}
		return "ok"
	case "infieldarr":
		return boolS(utils.CheckBigIntArrayInField(a[0].l))
	case "mul":
		return kP(babyjub.NewPoint().Mul(a[0].i, mkPoint(a[1].i, a[2].i)))
	case "mulrecv": // receiver and returned value
		p := mkPoint(babyjub.B8.X, babyjub.B8.Y) // a receiver that already holds a point
		r := p.Mul(a[0].i, mkPoint(a[1].i, a[2].i))
		return pt(p) + " " + pt(r)
	case "mulzerorecv": // a zero-value Point as receiver (nil coordinates before the call): receiver and returned value
		p := new(babyjub.Point)
		r := p.Mul(a[0].i, mkPoint(a[1].i, a[2].i))
		return pt(p) + " " + pt(r)
	case "decompresszero":
		p := new(babyjub.Point)
		r, err := p.Decompress(arr32(a[0].b))
		if err != nil {
			if p.X == nil && p.Y == nil {
				return "ERR untouched"
			}
			return "ERR touched"
		}
		if p.X == nil || p.Y == nil {
			return "NILCOORD " + pt(r)
		}
		return pt(p) + " " + pt(r)
	case "mulalias": // q.Mul(s, q)
		q := mkPoint(a[1].i, a[2].i)
		r := q.Mul(a[0].i, q)
		return pt(q) + " " + pt(r)
	case "pset":
		p := babyjub.NewPoint()
		r := p.Set(mkPoint(a[0].i, a[1].i))
		return pt(p) + " " + pt(r)
	case "psetalias": // p.Set(p): the argument is the receiver itself
		p := mkPoint(a[0].i, a[1].i)
		r := p.Set(p)
		return pt(p) + " " + pt(r)
	case "psetshared": // the argument is a distinct Point sharing its big.Ints with the receiver
		p := mkPoint(a[0].i, a[1].i)
		c := &babyjub.Point{X: p.X, Y: p.Y}
		r := p.Set(c)
		return pt(p) + " " + pt(r)
	case "mulB8": // s * B8 with the package-level point itself as argument
		return pt(babyjub.NewPoint().Mul(a[0].i, babyjub.B8))
	case "incurveB8":
		return boolS(babyjub.B8.InCurve()) + " " + boolS(babyjub.B8.InSubGroup())
	case "compressB8":
		r := babyjub.B8.Compress()
		return xB(r[:])
	case "incurve":
		return boolS(mkPoint(a[0].i, a[1].i).InCurve())
	case "insub":
		return boolS(mkPoint(a[0].i, a[1].i).InSubGroup())
	case "csign":
		return boolS(babyjub.PointCoordSign(a[0].i))
	case "packsigny":
		r := babyjub.PackSignY(a[0].t, a[1].i)
		return xB(r[:])
	case "unpacksigny":
		s, y := babyjub.UnpackSignY(arr32(a[0].b))
		return boolS(s) + " " + kI(y)
	case "compress":
		r := mkPoint(a[0].i, a[1].i).Compress()
		return xB(r[:])
	case "decompress":
		p, err := babyjub.NewPoint().Decompress(arr32(a[0].b))
		if err != nil {
			return "ERR"
		}
		return kP(p)
	case "decompressrecv":
		p := mkPoint(big.NewInt(7), big.NewInt(9))
		r, err := p.Decompress(arr32(a[0].b))
		if err != nil {
			return "ERR " + pt(p)
		}
		return pt(p) + " " + pt(r)
	case "fromsigny":
		p, err := babyjub.PointFromSignAndY(a[0].t, a[1].i)
		if err != nil {
			return "ERR"
		}
		return kP(p)
	// ---- eddsa
	case "sk2int":
		k := babyjub.PrivateKey(arr32(a[0].b))
		return kI(babyjub.SkToBigInt(&k))
	case "public":
		k := babyjub.PrivateKey(arr32(a[0].b))
		return kP(k.Public().Point())
	case "scalarpublic":
		return kP(babyjub.NewPrivKeyScalar(a[0].i).Public().Point())
	case "scalarseq": // one PrivKeyScalar object used for several derivations in sequence
		k := babyjub.PrivateKey(arr32(a[0].b))
		sc := k.Scalar()
		b0 := bI(sc.BigInt())
		p1 := pt(sc.Public().Point())
		b1 := bI(sc.BigInt())
		p2 := pt(sc.Public().Point())
		b2 := bI(babyjub.SkToBigInt(&k))
		return b0 + " " + p1 + " " + b1 + " " + p2 + " " + b2
	case "pubroutes":
		k := babyjub.PrivateKey(arr32(a[0].b))
		return pt(k.Public().Point()) + " " + pt(k.Scalar().Public().Point()) + " " +
			bI(babyjub.SkToBigInt(&k)) + " " + bI(k.Scalar().BigInt())
	case "signp", "signm":
		k := babyjub.PrivateKey(arr32(a[0].b))
		var sig *babyjub.Signature
		var err error
		if op == "signp" {
			sig, err = k.SignPoseidon(a[1].i)
		} else {
			sig, err = k.SignMimc7(a[1].i)
		}
		if err != nil {
			return "ERR"
		}
		return kP(sig.R8) + " " + kI(sig.S)
	case "verifyp", "verifym":
		pk := babyjub.PublicKey(*mkPoint(a[0].i, a[1].i))
		sig := &babyjub.Signature{R8: mkPoint(a[3].i, a[4].i), S: a[5].i}
		var err error
		if op == "verifyp" {
			err = pk.VerifyPoseidon(a[2].i, sig)
		} else {
			err = pk.VerifyMimc7(a[2].i, sig)
		}
		if err != nil {
			return "ERR"
		}
		return "ok"
	case "sigcomp":
		sig := &babyjub.Signature{R8: mkPoint(a[0].i, a[1].i), S: a[2].i}
		r := sig.Compress()
		return xB(r[:])
	case "sigdecomp": // receiver and returned value
		s := new(babyjub.Signature)
		r, err := s.Decompress(arr64(a[0].b))
		if err != nil {
			return "ERR"
		}
		return pt(r.R8) + " " + bI(r.S) + " " + pt(s.R8) + " " + bI(s.S)
	case "sigdecompc":
		c := babyjub.SignatureComp(arr64(a[0].b))
		r, err := c.Decompress()
		if err != nil {
			return "ERR"
		}
		return kP(r.R8) + " " + kI(r.S)
	case "pkcomp":
		pk := babyjub.PublicKey(*mkPoint(a[0].i, a[1].i))
		r := pk.Compress()
		return xB(r[:])
	case "pkdecomp":
		c := babyjub.PublicKeyComp(arr32(a[0].b))
		r, err := c.Decompress()
		if err != nil {
			return "ERR"
		}
		return kP(r.Point())
	case "pkmarshal":
		pk := babyjub.PublicKey(*mkPoint(a[0].i, a[1].i))
		t, err := pk.MarshalText()
		if err != nil {
			return "ERR"
		}
		if string(t) != pk.String() {
			return "MISMATCH"
		}
		return xB(t)
	case "pkunmarshal":
		var pk babyjub.PublicKey
		if err := pk.UnmarshalText(a[0].b); err != nil {
			return "ERR"
		}
		return pt(pk.Point())
	case "pkcmarshal":
		c := babyjub.PublicKeyComp(arr32(a[0].b))
		t, _ := c.MarshalText()
		if string(t) != c.String() {
			return "MISMATCH"
		}
		return xB(t)
	case "pkcunmarshal":
		var c babyjub.PublicKeyComp
		if err := c.UnmarshalText(a[0].b); err != nil {
			return "ERR"
		}
		return xB(c[:])
	case "sigcmarshal":
		c := babyjub.SignatureComp(arr64(a[0].b))
		t, _ := c.MarshalText()
		if string(t) != c.String() {
			return "MISMATCH"
		}
		return xB(t)
	case "sigcunmarshal":
		var c babyjub.SignatureComp
		if err := c.UnmarshalText(a[0].b); err != nil {
			return "ERR"
		}
		return xB(c[:])
	case "decompresssig":
		r, err := babyjub.DecompressSig(a[0].b)
		if err != nil {
			return "ERR"
		}
		return pt(r.R8) + " " + bI(r.S)
	case "sigscan":
		var s babyjub.Signature
		if err := s.Scan(a[0].src); err != nil {
			return "ERR"
		}
		return pt(s.R8) + " " + bI(s.S)
	case "sigcscan":
		var c babyjub.SignatureComp
		if err := c.Scan(a[0].src); err != nil {
			return "ERR"
		}
		return xB(c[:])
	case "pkscan":
		var pk babyjub.PublicKey
		if err := pk.Scan(a[0].src); err != nil {
			return "ERR"
		}
		return pt(pk.Point())
	case "pkcscan":
		var c babyjub.PublicKeyComp
		if err := c.Scan(a[0].src); err != nil {
			return "ERR"
		}
		return xB(c[:])
	case "sigvalue":
		sig := babyjub.Signature{R8: mkPoint(a[0].i, a[1].i), S: a[2].i}
		v, err := sig.Value()
		if err != nil {
			return "ERR"
		}
		return xB(v.([]byte))
	case "pkvalue":
		pk := babyjub.PublicKey(*mkPoint(a[0].i, a[1].i))
		v, err := pk.Value()
		if err != nil {
			return "ERR"
		}
		return xB(v.([]byte))
	case "sigcvalue":
		c := babyjub.SignatureComp(arr64(a[0].b))
		v, _ := c.Value()
		return xB(v.([]byte))
	case "pkcvalue":
		c := babyjub.PublicKeyComp(arr32(a[0].b))
		v, _ := c.Value()
		return xB(v.([]byte))
	// ---- hashes
	case "poseidon": // cap nOuts [inputs]
		r, err := poseidon.HashWithStateEx(a[2].l, a[0].i, int(a[1].i.Int64()))
		if err != nil {
			return "ERR"
		}
		return kL(r)
	case "poseidonh":
		r, err := poseidon.Hash(a[0].l)
		if err != nil {
			return "ERR"
		}
		return kI(r)
	case "poseidonhs":
		r, err := poseidon.HashWithState(a[1].l, a[0].i)
		if err != nil {
			return "ERR"
		}
		return kI(r)
	case "poseidonex":
		r, err := poseidon.HashEx(a[1].l, int(a[0].i.Int64()))
		if err != nil {
			return "ERR"
		}
		return kL(r)
	case "gold": // [12 words]: 8 inputs then 4 capacity
		var in [8]uint64
		var cp [4]uint64
		for i := 0; i < 8; i++ {
			in[i] = a[0].l[i].Uint64()
		}
		for i := 0; i < 4; i++ {
			cp[i] = a[0].l[8+i].Uint64()
		}
		r, err := gold.Hash(in, cp)
		if err != nil {
			return "ERR"
		}
		return fmt.Sprintf("[%d,%d,%d,%d]", r[0], r[1], r[2], r[3])
	case "mimc7":
		return kI(mimc7.MIMC7Hash(a[0].i, a[1].i))
	case "mimc7g":
		return kI(mimc7.MIMC7HashGeneric(a[0].i, a[1].i, int(a[2].i.Int64())))
	case "mimchash": // key|nil [arr]
		var key *big.Int
		if a[0].kind == 'i' {
			key = a[0].i
		}
		r, err := mimc7.Hash(a[1].l, key)
		if err != nil {
			return "ERR"
		}
		return kI(r)
	case "mimchashg": // iv [arr] n
		r, err := mimc7.HashGeneric(a[0].i, a[1].l, int(a[2].i.Int64()))
		if err != nil {
			return "ERR"
		}
		return kI(r)
	case "mimcbytes":
		r, err := mimc7.HashBytes(a[0].b)
		if err != nil {
			return "ERR"
		}
		return kI(r)
	case "keccak":
		data := make([][]byte, len(a))
		for i := range a {
			if a[i].kind == 'n' {
				data[i] = nil
			} else {
				data[i] = a[i].b
			}
		}
		return kB(keccak256.Hash(data...))
	case "keccakarena": // arena [o1,l1,o2,l2,...]: slices of ONE backing array (spare capacity behind each)
		arena := append([]byte(nil), a[0].b...)
		var data [][]byte
		for i := 0; i+1 < len(a[1].l); i += 2 {
			o, l := int(a[1].l[i].Int64()), int(a[1].l[i+1].Int64())
			data = append(data, arena[o:o+l])
		}
		d := keccak256.Hash(data...)
		return xB(d) + " " + xB(arena)
	case "blakearena": // arena off len: input is a slice with spare capacity
		arena := append([]byte(nil), a[0].b...)
		o, l := int(a[1].i.Int64()), int(a[2].i.Int64())
		d := babyjub.Blake512(arena[o : o+l])
		return xB(d) + " " + xB(arena)
	case "blake":
		return kB(babyjub.Blake512(a[0].b))
	case "ff":
		return ffOp(a[0].tok, a[1].tok, a[2:])
	case "ffg":
		return ffgOp(a[0].tok, a[1:])
	case "elarr": // utils.BigIntArrayToElementArray / ElementArrayToBigIntArray
		es := utils.BigIntArrayToElementArray(a[0].l)
		return lI(utils.ElementArrayToBigIntArray(es))
	}
	return "UNKNOWN-OP"
}

// ff ops; backend: asm (public API, run-time ADX), noadx (public API with ADX
// switched off), gen (portable routines through the verif hooks).
var adxMu sync.Mutex

func ffOp(backend, op string, a []val) (out string) {
	// operands that are not the destination must come back unchanged
	type kept struct {
		p *ff.Element
		v ff.Element
	}
	var keeps []kept
	keep := func(p *ff.Element) { keeps = append(keeps, kept{p, *p}) }
	out = ffOpIn(backend, op, a, keep)
	for _, k := range keeps {
		if *k.p != k.v {
			return out + " MUTATED:operand"
		}
	}
	return out
}

func ffOpIn(backend, op string, a []val, keep func(*ff.Element)) string {
	if backend == "noadx" {
		adxMu.Lock()
		old := ff.VerifSetSupportAdx(false)
		defer func() { ff.VerifSetSupportAdx(old); adxMu.Unlock() }()
	}
	gen := backend == "gen"
	el := func(i int) ff.Element { return ffFromRaw(a[i].i) }
	switch op {
	case "add", "sub", "mul", "div":
		// a[0] = aliasing pattern: 0 fresh z, 1 z=x, 2 z=y, 3 x=y (z fresh), 4 z=x=y
		x, y := el(1), el(2)
		var z ff.Element
		zp, xp, yp := &z, &x, &y
		switch a[0].i.Int64() {
		case 1:
			zp = xp
		case 2:
			zp = yp
		case 3:
			yp = xp
		case 4:
			yp = xp
			zp = xp
		case 5: // distinct destination that already holds a non-zero value
			z = x
			z[0] ^= 0x5a5a5a5a5a5a5a5a
		}
		if xp != zp {
			keep(xp)
		}
		if yp != zp && yp != xp {
			keep(yp)
		}
		switch op {
		case "add":
			if gen {
				ff.VerifAddGeneric(zp, xp, yp)
			} else {
				zp.Add(xp, yp)
			}
		case "sub":
			if gen {
				ff.VerifSubGeneric(zp, xp, yp)
			} else {
				zp.Sub(xp, yp)
			}
		case "mul":
			if gen {
				ff.VerifMulGeneric(zp, xp, yp)
			} else {
				zp.Mul(xp, yp)
			}
		case "div":
			zp.Div(xp, yp)
		}
		return ffRaw(zp)
	case "neg", "double", "square", "inverse":
		x := el(1)
		var z ff.Element
		zp := &z
		if a[0].i.Int64() == 1 {
			zp = &x
		} else if a[0].i.Int64() == 2 { // distinct destination that already holds a non-zero value
			z = x
			z[0] ^= 0x5a5a5a5a5a5a5a5a
		}
		if zp != &x {
			keep(&x)
		}
		switch op {
		case "neg":
			if gen {
				ff.VerifNegGeneric(zp, &x)
			} else {
				zp.Neg(&x)
			}
		case "double":
			if gen {
				ff.VerifDoubleGeneric(zp, &x)
			} else {
				zp.Double(&x)
			}
		case "square":
			if gen {
				ff.VerifMulGeneric(zp, &x, &x)
			} else {
				zp.Square(&x)
			}
		case "inverse":
			zp.Inverse(&x)
		}
		return ffRaw(zp)
	case "halve":
		x := el(0)
		x.Halve()
		return ffRaw(&x)
	case "mulby3", "mulby5", "mulby13":
		x := el(0)
		c := map[string]uint8{"mulby3": 3, "mulby5": 5, "mulby13": 13}[op]
		if gen {
			ff.VerifMulByConstant(&x, c)
		} else {
			switch c {
			case 3:
				ff.MulBy3(&x)
			case 5:
				ff.MulBy5(&x)
			default:
				ff.MulBy13(&x)
			}
		}
		return ffRaw(&x)
	case "frommont":
		x := el(0)
		if gen {
			ff.VerifFromMontGeneric(&x)
		} else {
			x.FromMont()
		}
		return ffRaw(&x)
	case "tomont":
		x := el(0)
		x.ToMont()
		return ffRaw(&x)
	case "butterfly":
		x, y := el(0), el(1)
		if gen {
			ff.VerifButterflyGeneric(&x, &y)
		} else {
			ff.Butterfly(&x, &y)
		}
		return ffRaw(&x) + " " + ffRaw(&y)
	case "butterflyalias": // Butterfly(&x, &x): both outputs share one object
		x := el(0)
		if gen {
			ff.VerifButterflyGeneric(&x, &x)
		} else {
			ff.Butterfly(&x, &x)
		}
		return ffRaw(&x)
	case "exp":
		x := el(0)
		var z ff.Element
		z.Exp(x, a[1].i)
		return ffRaw(&z)
	case "batchinv":
		in := make([]ff.Element, len(a[0].l))
		for i, v := range a[0].l {
			in[i] = ffFromRaw(v)
		}
		for i := range in {
			keep(&in[i])
		}
		out := ff.BatchInvert(in)
		ss := make([]string, len(out))
		for i := range out {
			ss[i] = ffRaw(&out[i])
		}
		return "[" + strings.Join(ss, ",") + "]"
	case "setuint64":
		var z ff.Element
		z.SetUint64(a[0].i.Uint64())
		z2 := ff.NewElementFromUint64(a[0].i.Uint64())
		if z != z2 {
			return "MISMATCH"
		}
		return ffRaw(&z)
	case "setbigint":
		z := el(0) // previous destination contents
		z.SetBigInt(a[1].i)
		return ffRaw(&z)
	case "setbytes":
		var z ff.Element
		z.SetBytes(a[0].b)
		return ffRaw(&z)
	case "setstring":
		var z ff.Element
		z.SetString(string(a[0].b))
		return ffRaw(&z)
	case "setinterface":
		var z ff.Element
		var arg interface{}
		switch a[0].tok {
		case "1": // Element
			arg = el(1)
		case "2": // *Element
			e := el(1)
			arg = &e
		case "3":
			arg = a[1].i.Uint64()
		case "4":
			arg = int(a[1].i.Int64())
		case "5":
			arg = string(a[1].b)
		case "6":
			arg = a[1].i
		case "7":
			arg = *a[1].i
		case "8":
			arg = a[1].b
		default:
			arg = 1.5
		}
		r, err := z.SetInterface(arg)
		if err != nil {
			return "ERR"
		}
		return ffRaw(r)
	case "tobig":
		x := el(0)
		keep(&x)
		return bI(x.ToBigIntRegular(new(big.Int)))
	case "bytes":
		x := el(0)
		keep(&x)
		b := x.Bytes()
		if string(b[:]) != string(x.Marshal()) {
			return "MISMATCH"
		}
		return xB(b[:])
	case "string":
		x := el(0)
		keep(&x)
		return xB([]byte(x.String()))
	case "equal":
		x, y := el(0), el(1)
		keep(&x)
		keep(&y)
		return boolS(x.Equal(&y))
	case "cmp":
		x, y := el(0), el(1)
		keep(&x)
		keep(&y)
		return fmt.Sprint(x.Cmp(&y))
	case "lexlargest":
		x := el(0)
		keep(&x)
		return boolS(x.LexicographicallyLargest())
	case "iszero":
		x := el(0)
		keep(&x)
		return boolS(x.IsZero())
	case "legendre":
		x := el(0)
		keep(&x)
		return fmt.Sprint(x.Legendre())
	case "sqrt": // dst x -> "nil dst'" or "z"
		d, x := el(0), el(1)
		keep(&x)
		r := d.Sqrt(&x)
		if r == nil {
			return "nil " + ffRaw(&d)
		}
		return ffRaw(r) + " " + ffRaw(&d)
	case "sqrtalias": // x.Sqrt(&x): destination is the operand
		x := el(0)
		r := x.Sqrt(&x)
		if r == nil {
			return "nil " + ffRaw(&x)
		}
		return ffRaw(r) + " " + ffRaw(&x)
	case "bit": // raw limbs, as documented
		x := el(0)
		keep(&x)
		return fmt.Sprint(x.Bit(a[1].i.Uint64()))
	case "bitlen":
		x := el(0)
		keep(&x)
		return fmt.Sprint(x.BitLen())
	case "modulus":
		m := ff.Modulus()
		r := kI(m)
		return r
	case "one":
		o := ff.One()
		var z ff.Element
		z.SetOne()
		if o != z {
			return "MISMATCH"
		}
		return ffRaw(&o)
	}
	return "UNKNOWN-OP"
}

func ffgOp(op string, a []val) (out string) {
	// operands that are not the destination must come back unchanged
	type kept struct {
		p *ffg.Element
		v ffg.Element
	}
	var keeps []kept
	keep := func(p *ffg.Element) { keeps = append(keeps, kept{p, *p}) }
	out = ffgOpIn(op, a, keep)
	for _, k := range keeps {
		if *k.p != k.v {
			return out + " MUTATED:operand"
		}
	}
	return out
}

func ffgOpIn(op string, a []val, keep func(*ffg.Element)) string {
	el := func(i int) ffg.Element { return ffgFromRaw(a[i].i) }
	switch op {
	case "add", "sub", "mul", "div":
		x, y := el(1), el(2)
		var z ffg.Element
		zp, xp, yp := &z, &x, &y
		switch a[0].i.Int64() {
		case 1:
			zp = xp
		case 2:
			zp = yp
		case 3:
			yp = xp
		case 4:
			yp = xp
			zp = xp
		case 5: // distinct destination that already holds a non-zero value
			z = x
			z[0] ^= 0x5a5a5a5a5a5a5a5a
		}
		if xp != zp {
			keep(xp)
		}
		if yp != zp && yp != xp {
			keep(yp)
		}
		switch op {
		case "add":
			zp.Add(xp, yp)
		case "sub":
			zp.Sub(xp, yp)
		case "mul":
			zp.Mul(xp, yp)
		case "div":
			zp.Div(xp, yp)
		}
		return ffgRaw(zp)
	case "neg", "double", "square", "inverse":
		x := el(1)
		var z ffg.Element
		zp := &z
		if a[0].i.Int64() == 1 {
			zp = &x
		} else if a[0].i.Int64() == 2 { // distinct destination that already holds a non-zero value
			z = x
			z[0] ^= 0x5a5a5a5a5a5a5a5a
		}
		if zp != &x {
			keep(&x)
		}
		switch op {
		case "neg":
			zp.Neg(&x)
		case "double":
			zp.Double(&x)
		case "square":
			zp.Square(&x)
		case "inverse":
			zp.Inverse(&x)
		}
		return ffgRaw(zp)
	case "halve":
		x := el(0)
		x.Halve()
		return ffgRaw(&x)
	case "mulby3":
		x := el(0)
		ffg.MulBy3(&x)
		return ffgRaw(&x)
	case "mulby5":
		x := el(0)
		ffg.MulBy5(&x)
		return ffgRaw(&x)
	case "mulby13":
		x := el(0)
		ffg.MulBy13(&x)
		return ffgRaw(&x)
	case "frommont":
		x := el(0)
		x.FromMont()
		return ffgRaw(&x)
	case "tomont":
		x := el(0)
		x.ToMont()
		return ffgRaw(&x)
	case "butterfly":
		x, y := el(0), el(1)
		ffg.Butterfly(&x, &y)
		return ffgRaw(&x) + " " + ffgRaw(&y)
	case "exp":
		x := el(0)
		var z ffg.Element
		z.Exp(x, a[1].i)
		return ffgRaw(&z)
	case "batchinv":
		in := make([]ffg.Element, len(a[0].l))
		for i, v := range a[0].l {
			in[i] = ffgFromRaw(v)
		}
		for i := range in {
			keep(&in[i])
		}
		out := ffg.BatchInvert(in)
		ss := make([]string, len(out))
		for i := range out {
			ss[i] = ffgRaw(&out[i])
		}
		return "[" + strings.Join(ss, ",") + "]"
	case "setuint64":
		var z ffg.Element
		z.SetUint64(a[0].i.Uint64())
		z2 := ffg.NewElementFromUint64(a[0].i.Uint64())
		if z != *z2 {
			return "MISMATCH"
		}
		return ffgRaw(&z)
	case "touint64":
		x := el(0)
		keep(&x)
		return fmt.Sprint(x.ToUint64Regular())
	case "setbigint":
		z := el(0)
		z.SetBigInt(a[1].i)
		return ffgRaw(&z)
	case "setbytes":
		var z ffg.Element
		z.SetBytes(a[0].b)
		return ffgRaw(&z)
	case "setstring":
		var z ffg.Element
		z.SetString(string(a[0].b))
		return ffgRaw(&z)
	case "setinterface":
		var z ffg.Element
		var arg interface{}
		switch a[0].tok {
		case "1": // Element
			arg = el(1)
		case "2": // *Element
			e := el(1)
			arg = &e
		case "3":
			arg = a[1].i.Uint64()
		case "4":
			arg = int(a[1].i.Int64())
		case "5":
			arg = string(a[1].b)
		case "6":
			arg = a[1].i
		case "7":
			arg = *a[1].i
		case "8":
			arg = a[1].b
		default:
			arg = 1.5
		}
		r, err := z.SetInterface(arg)
		if err != nil {
			return "ERR"
		}
		return ffgRaw(r)
	case "tobig":
		x := el(0)
		keep(&x)
		return bI(x.ToBigIntRegular(new(big.Int)))
	case "bytes":
		x := el(0)
		keep(&x)
		b := x.Bytes()
		if string(b[:]) != string(x.Marshal()) {
			return "MISMATCH"
		}
		return xB(b[:])
	case "string":
		x := el(0)
		keep(&x)
		return xB([]byte(x.String()))
	case "equal":
		x, y := el(0), el(1)
		keep(&x)
		keep(&y)
		return boolS(x.Equal(&y))
	case "cmp":
		x, y := el(0), el(1)
		keep(&x)
		keep(&y)
		return fmt.Sprint(x.Cmp(&y))
	case "lexlargest":
		x := el(0)
		keep(&x)
		return boolS(x.LexicographicallyLargest())
	case "iszero":
		x := el(0)
		keep(&x)
		return boolS(x.IsZero())
	case "legendre":
		x := el(0)
		keep(&x)
		return fmt.Sprint(x.Legendre())
	case "sqrt":
		d, x := el(0), el(1)
		keep(&x)
		r := d.Sqrt(&x)
		if r == nil {
			return "nil " + ffgRaw(&d)
		}
		return ffgRaw(r) + " " + ffgRaw(&d)
	case "sqrtalias":
		x := el(0)
		r := x.Sqrt(&x)
		if r == nil {
			return "nil " + ffgRaw(&x)
		}
		return ffgRaw(r) + " " + ffgRaw(&x)
	case "butterflyalias": // Butterfly(&x, &x)
		x := el(0)
		ffg.Butterfly(&x, &x)
		return ffgRaw(&x)
	case "bit": // raw limbs, as documented
		x := el(0)
		keep(&x)
		return fmt.Sprint(x.Bit(a[1].i.Uint64()))
	case "bitlen":
		x := el(0)
		keep(&x)
		return fmt.Sprint(x.BitLen())
	case "modulus":
		m := ffg.Modulus()
		r := kI(m)
		return r
	case "one":
		o := ffg.One()
		var z ffg.Element
		z.SetOne()
		if o != z {
			return "MISMATCH"
		}
		return ffgRaw(&o)
	}
	return "UNKNOWN-OP"
}

// ---------------------------------------------------------------- main

type caseLine struct {
	op   string
	args []val
}

func main() {
	purity := flag.Bool("purity", false, "argument/global snapshots and repeat pass")
	conc := flag.Int("conc", 0, "number of concurrent goroutines for the concurrent pass")
	rounds := flag.Int("rounds", 1, "passes per goroutine in the concurrent pass")
	noadx := flag.Bool("noadx", false, "switch the run-time ADX dispatch of ff off for the whole run")
	outPath := flag.String("out", "", "write the result lines to this file instead of stdout")
	flag.Parse()
	if *noadx {
		ff.VerifSetSupportAdx(false)
	}
	f, err := os.Open(flag.Arg(0))
	if err != nil {
		fmt.Fprintln(os.Stderr, err)
		os.Exit(2)
	}
	sc := bufio.NewScanner(f)
	sc.Buffer(make([]byte, 1<<20), 1<<26)
	var cases []caseLine
	for sc.Scan() {
		line := strings.TrimSpace(sc.Text())
		if line == "" {
			continue
		}
		fs := strings.Fields(line)
		c := caseLine{op: fs[0]}
		for _, t := range fs[1:] {
			c.args = append(c.args, parseTok(t))
		}
		cases = append(cases, c)
	}
	outF := os.Stdout
	if *outPath != "" {
		var err2 error
		outF, err2 = os.Create(*outPath)
		if err2 != nil {
			fmt.Fprintln(os.Stderr, err2)
			os.Exit(2)
		}
		defer outF.Close()
	}
	w := bufio.NewWriter(outF)
	defer w.Flush()
	outs := make([]string, len(cases))
	flags := make([]string, len(cases))
	retained := make([][]kept, len(cases))
	snapsOut := make([][]string, len(cases))
	g0 := ""
	if *purity {
		g0 = globalsDigest()
	}
	var concFirst [][]string
	if *conc > 0 {
		concFirst = make([][]string, *conc)
		var wg0 sync.WaitGroup
		for g := 0; g < *conc; g++ {
			concFirst[g] = make([]string, len(cases))
			wg0.Add(1)
			go func(g int) {
				defer wg0.Done()
				for k := range cases {
					i := (k*(2*g+1) + g) % len(cases)
					concFirst[g][i] = run(cases[i].op, cases[i].args)
				}
			}(g)
		}
		wg0.Wait()
	}
	for i, c := range cases {
		var snaps []string
		if *purity {
			for _, a := range c.args {
				snaps = append(snaps, a.snap())
			}
		}
		retainCur = nil
		outs[i] = run(c.op, c.args)
		if *purity {
			retained[i] = retainCur
			snapsOut[i] = make([]string, len(retainCur))
			for j, f := range retainCur {
				snapsOut[i][j] = f.ser()
			}
			for j, a := range c.args {
				if a.snap() != snaps[j] {
					flags[i] += fmt.Sprintf(" MUTATED:arg%d", j)
				}
			}
			if g := globalsDigest(); g != g0 {
				flags[i] += " MUTATED:globals"
				g0 = g
			}
		}
	}
	if *purity {
		for i := range cases {
			for j, f := range retained[i] {
				if f.ser() != snapsOut[i][j] {
					flags[i] += " RESULT-CHANGED"
					break
				}
			}
		}
		for i, c := range cases {
			if r := run(c.op, c.args); r != outs[i] {
				flags[i] += " REPEAT-DIFF"
			}
		}
	}
	if *purity {
		// A caller owns what a call returned: scribbling over every returned object
		// must not reach package state, nor change what any call returns afterwards
		// (a result that shares storage with a cache, a pool or a constant would).
		// A result that shares storage with an ARGUMENT of its own call (receiver
		// methods, documented destinations) is left alone.
		for i, c := range cases {
			var snaps []string
			for _, a := range c.args {
				snaps = append(snaps, a.snap())
			}
			for _, k := range retained[i] {
				k.scr(false)
				aliasArg := false
				for j, a := range c.args {
					if a.snap() != snaps[j] {
						aliasArg = true
					}
				}
				if aliasArg {
					k.scr(true)
					continue
				}
				if g := globalsDigest(); g != g0 {
					flags[i] += " SCRIBBLE-GLOBALS"
					k.scr(true)
					if g2 := globalsDigest(); g2 != g0 {
						g0 = g2
					}
				}
			}
		}
		for i, c := range cases {
			if r := run(c.op, c.args); r != outs[i] {
				flags[i] += " SCRIBBLE-DIFF"
			}
		}
	}
	for i := range cases {
		fmt.Fprintln(w, outs[i]+flags[i])
	}
	if *conc > 0 {
		var wg sync.WaitGroup
		var mu sync.Mutex
		diffs := 0
		for g := range concFirst {
			for i := range cases {
				if concFirst[g][i] != "" && concFirst[g][i] != outs[i] {
					if diffs < 20 {
						fmt.Fprintf(w, "CONC-DIFF(first pass) line=%d goroutine=%d got=%s want=%s\n", i, g, concFirst[g][i], outs[i])
					}
					diffs++
				}
			}
		}
		for g := 0; g < *conc; g++ {
			wg.Add(1)
			go func(g int) {
				defer wg.Done()
				for r := 0; r < *rounds; r++ {
					for k := range cases {
						i := (k*(2*g+1) + g + r) % len(cases)
						if res := run(cases[i].op, cases[i].args); res != outs[i] {
							mu.Lock()
							if diffs < 20 {
								fmt.Fprintf(w, "CONC-DIFF line=%d goroutine=%d got=%s want=%s\n", i, g, res, outs[i])
							}
							diffs++
							mu.Unlock()
						}
					}
				}
			}(g)
		}
		wg.Wait()
		fmt.Fprintf(w, "CONC-DONE goroutines=%d diffs=%d\n", *conc, diffs)
	}
}

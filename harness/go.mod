module verifharness

go 1.20

require github.com/iden3/go-iden3-crypto/v2 v2.0.0

require (
	github.com/dchest/blake512 v1.0.0 // indirect
	golang.org/x/crypto v0.32.0 // indirect
	golang.org/x/sys v0.29.0 // indirect
)

replace github.com/iden3/go-iden3-crypto/v2 => /repo
